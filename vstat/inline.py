"""Syntactic inliner: lets the intraprocedural rules see through private helpers.

Maintainers split long functions: `disassembler.__call__` becomes `_index_key` + `_find_leaf` + `_complete`, the rollback of
`ispec.decode` moves into `_undo(i, saved)`, the two loops of `merge` share `_lookup(m, loc, size)`.  The rules are written
against one function (CFG paths, dominance, def-use); instead of teaching each rule to follow calls, the anchor function is
rewritten with its *private same-file helpers expanded in place* and the rule runs on that AST.

What is expanded (depth <= 3, no recursion): a call that is a whole statement, the whole right-hand side of an assignment, the
whole value of a return, or the whole test of an if / while (possibly under `not`), and whose callee is

  * `self.<name>(..)` / `cls.<name>(..)` / `<Class>.<name>(..)` -- a method of the same class (by-name MRO) defined in the same file, or
  * `<name>(..)` -- a module-level function of the same file whose name starts with an underscore,

is not a generator, takes no *args/**kwargs at the call site, is not the function itself, and is *new*: it is not listed in
ref/functions.json, the inventory of the functions of the reviewed tree (helpers that existed when the rules were written are
anchors the rules know by name -- `__cut_add_vertex`, `mapper.R` -- and stay calls).

How: parameters are replaced by the argument expressions when those are side-effect free (names, attributes, constants,
subscripts of those), otherwise bound to fresh temporaries first; the callee's own locals get a suffix; `return e` becomes
`<ret> = e` -- followed by `break` out of a `while True:` wrapper when the callee has more than one return or a return that is
not its last statement; the original statement then uses `<ret>`.  Exceptions need nothing: they propagate through the
expanded statements exactly as through the call.
"""
import ast
import copy
import itertools

_counter = itertools.count(1)
_CACHE = {}


def _simple(e):
    if isinstance(e, (ast.Name, ast.Constant)):
        return True
    if isinstance(e, ast.Attribute):
        return _simple(e.value)
    if isinstance(e, ast.Subscript):
        return _simple(e.value) and _simple(e.slice) if not isinstance(e.slice, ast.Slice) else False
    if isinstance(e, ast.UnaryOp):
        return _simple(e.operand)
    return False


def _is_generator(fn):
    for n in ast.walk(fn):
        if isinstance(n, (ast.Yield, ast.YieldFrom)):
            # ignore yields of nested defs
            return True
    return False


_KNOWN = None


def _known():
    global _KNOWN
    if _KNOWN is None:
        import json, os
        from . import VERIF

        try:
            with open(os.path.join(VERIF, "ref", "functions.json")) as fh:
                inv = json.load(fh)["functions"]
        except OSError:
            inv = {}
        _KNOWN = {(rel, q) for rel, qs in inv.items() for q in qs}
    return _KNOWN


def _callee(repo, f, call):
    """FuncInfo of an inlinable callee, with the receiver expression (or None), or None"""
    fn = call.func
    if any(isinstance(a, ast.Starred) for a in call.args) or any(k.arg is None for k in call.keywords):
        return None
    g = recv = None
    if isinstance(fn, ast.Attribute) and f.cls is not None:
        base = fn.value
        ok = (isinstance(base, ast.Name) and base.id in ("self", "cls", f.cls.name)) or (isinstance(base, ast.Attribute) and base.attr == "__class__")
        if ok:
            g = repo.find_method(f.cls, fn.attr)
            recv = base if isinstance(base, ast.Name) and base.id == "self" else None
    elif isinstance(fn, ast.Name) and fn.id.startswith("_"):
        cand = f.mod.functions.get(fn.id)
        if cand is not None and cand.cls is None:
            g = cand
    if g is None or g is f or g.mod is not f.mod or g.name == f.name:
        return None
    if g.name.startswith("__") and g.name.endswith("__"):
        return None
    if (g.mod.rel, g.dqual) in _known():
        return None  # a helper that existed when the rules were written: the rules know it by name
    if _is_generator(g.node):
        return None
    decos = {ast.unparse(d) for d in g.node.decorator_list}
    if decos - {"staticmethod", "classmethod"}:
        return None
    return g, recv, decos


class _Subst(ast.NodeTransformer):
    def __init__(self, names, exprs, suffix, ret, use_break):
        self.names, self.exprs, self.suffix, self.ret, self.use_break = names, exprs, suffix, ret, use_break
        self.loop_depth = 0
        self.done = "__done" + suffix
        self.used_done = False

    def _loop(self, n):
        self.loop_depth += 1
        had = self.used_done
        self.used_done = False
        n = self.generic_visit(n)
        inner_ret = self.used_done
        self.loop_depth -= 1
        self.used_done = had or inner_ret
        if inner_ret:
            # a `return` inside this loop became `ret = e; done = True; break`: leave the enclosing construct as well
            chk = ast.If(test=ast.Name(id=self.done, ctx=ast.Load()), body=[ast.Break()], orelse=[])
            ast.copy_location(chk, n)
            ast.fix_missing_locations(chk)
            return [n, chk]
        return n

    def visit_For(self, n):
        return self._loop(n)

    def visit_While(self, n):
        return self._loop(n)

    def visit_Name(self, n):
        if n.id in self.exprs:
            return copy.deepcopy(self.exprs[n.id]) if isinstance(n.ctx, ast.Load) else ast.copy_location(ast.Name(id=n.id + self.suffix, ctx=n.ctx), n)
        if n.id in self.names:
            return ast.copy_location(ast.Name(id=n.id + self.suffix, ctx=n.ctx), n)
        return n

    def visit_FunctionDef(self, n):
        return n  # nested definitions are left alone

    visit_Lambda = visit_AsyncFunctionDef = visit_FunctionDef

    def visit_Return(self, n):
        v = self.visit(n.value) if n.value is not None else ast.Constant(value=None)
        a = ast.copy_location(ast.Assign(targets=[ast.Name(id=self.ret, ctx=ast.Store())], value=v), n)
        a.lineno = getattr(n, "lineno", 0)
        if self.use_break:
            b = ast.copy_location(ast.Break(), n)
            if self.loop_depth > 0:
                self.used_done = True
                d = ast.copy_location(ast.Assign(targets=[ast.Name(id=self.done, ctx=ast.Store())], value=ast.Constant(value=True)), n)
                return [a, d, b]
            return [a, b]
        return a


def _expand(repo, f, call, depth, stack):
    """(prelude statements, replacement expression) for an inlinable call, or None"""
    r = _callee(repo, f, call)
    if r is None:
        return None
    g, recv, decos = r
    if g.key in stack or depth <= 0:
        return None
    k = next(_counter)
    suffix = "__inl%d" % k
    ret = "__ret%d" % k
    params = [a.arg for a in g.node.args.posonlyargs + g.node.args.args]
    kwonly = [a.arg for a in g.node.args.kwonlyargs]
    if g.node.args.vararg or g.node.args.kwarg:
        return None
    pre = []
    exprs = {}
    bound = list(params)
    if "staticmethod" not in decos and g.cls is not None:
        if not bound:
            return None
        first = bound.pop(0)
        exprs[first] = ast.Name(id="self", ctx=ast.Load()) if "classmethod" not in decos else ast.Attribute(value=ast.Name(id="self", ctx=ast.Load()), attr="__class__", ctx=ast.Load())
    # defaults
    defaults = {}
    pos = g.node.args.posonlyargs + g.node.args.args
    for p, d in zip(pos[len(pos) - len(g.node.args.defaults):], g.node.args.defaults):
        defaults[p.arg] = d
    for p, d in zip(g.node.args.kwonlyargs, g.node.args.kw_defaults):
        if d is not None:
            defaults[p.arg] = d
    given = {}
    if len(call.args) > len(bound):
        return None
    for p, a in zip(bound, call.args):
        given[p] = a
    for kw in call.keywords:
        if kw.arg not in bound + kwonly or kw.arg in given:
            return None
        given[kw.arg] = kw.value
    assigned_in_g = {n.id for n in ast.walk(g.node) if isinstance(n, ast.Name) and isinstance(n.ctx, ast.Store)}
    for p in bound + kwonly:
        a = given.get(p, defaults.get(p))
        if a is None:
            return None
        if _simple(a) and p not in assigned_in_g:
            exprs[p] = a
        else:
            tmp = p + suffix
            st = ast.Assign(targets=[ast.Name(id=tmp, ctx=ast.Store())], value=copy.deepcopy(a))
            ast.copy_location(st, call)
            pre.append(st)
            exprs[p] = ast.Name(id=tmp, ctx=ast.Load())
            # the parameter is re-bound inside the callee: later stores go to the same temporary
    local_names = assigned_in_g - set(exprs)
    body = [s for s in g.node.body]
    if body and isinstance(body[0], ast.Expr) and isinstance(body[0].value, ast.Constant) and isinstance(body[0].value.value, str):
        body = body[1:]
    rets = [n for s in body for n in _walk_no_nested_stmt(s) if isinstance(n, ast.Return)]
    simple_tail = len(rets) == 0 or (len(rets) == 1 and body and body[-1] is rets[0])
    sub = _Subst(local_names, exprs, suffix, ret, not simple_tail)
    new = []
    for s in copy.deepcopy(body):
        out = sub.visit(s)
        new.extend(out if isinstance(out, list) else [out])
    new = [_inline_stmt(repo, g, s, depth - 1, stack | {g.key}) for s in new]
    new = [x for s in new for x in (s if isinstance(s, list) else [s])]
    init = ast.Assign(targets=[ast.Name(id=ret, ctx=ast.Store())], value=ast.Constant(value=None))
    ast.copy_location(init, call)
    if sub.used_done:
        d0 = ast.Assign(targets=[ast.Name(id=sub.done, ctx=ast.Store())], value=ast.Constant(value=False))
        ast.copy_location(d0, call)
        pre = pre + [d0]
    if simple_tail:
        stmts = pre + [init] + new
    else:
        brk = ast.copy_location(ast.Break(), call)
        loop = ast.While(test=ast.Constant(value=True), body=new + [brk], orelse=[])
        ast.copy_location(loop, call)
        stmts = pre + [init, loop]
    for s in stmts:
        ast.fix_missing_locations(s)
    return stmts, ast.copy_location(ast.Name(id=ret, ctx=ast.Load()), call)


# ------------------------------------------------------------------------------------------------ context managers
_CM_DECOS = {"contextmanager", "contextlib.contextmanager"}


def _bind_args(g, decos, call, suffix, allow_vararg=False):
    """(prelude, param -> expression) binding the parameters of g to the arguments of call, or None"""
    params = [a.arg for a in g.node.args.posonlyargs + g.node.args.args]
    kwonly = [a.arg for a in g.node.args.kwonlyargs]
    if g.node.args.kwarg or (g.node.args.vararg and not allow_vararg):
        return None
    if any(isinstance(a, ast.Starred) for a in call.args) or any(k.arg is None for k in call.keywords):
        return None
    pre, exprs = [], {}
    bound = list(params)
    if "staticmethod" not in decos and g.cls is not None:
        if not bound:
            return None
        first = bound.pop(0)
        exprs[first] = ast.Name(id="self", ctx=ast.Load())
    defaults = {}
    pos = g.node.args.posonlyargs + g.node.args.args
    for p_, d in zip(pos[len(pos) - len(g.node.args.defaults):], g.node.args.defaults):
        defaults[p_.arg] = d
    for p_, d in zip(g.node.args.kwonlyargs, g.node.args.kw_defaults):
        if d is not None:
            defaults[p_.arg] = d
    given = {}
    extra = list(call.args[len(bound):])
    if extra and not g.node.args.vararg:
        return None
    for p_, a in zip(bound, call.args):
        given[p_] = a
    for kw in call.keywords:
        if kw.arg not in bound + kwonly or kw.arg in given:
            return None
        given[kw.arg] = kw.value
    assigned = {n.id for n in ast.walk(g.node) if isinstance(n, ast.Name) and isinstance(n.ctx, ast.Store)}
    for p_ in bound + kwonly:
        a = given.get(p_, defaults.get(p_))
        if a is None:
            return None
        if _simple(a) and p_ not in assigned:
            exprs[p_] = a
        else:
            tmp = p_ + suffix
            st = ast.Assign(targets=[ast.Name(id=tmp, ctx=ast.Store())], value=copy.deepcopy(a))
            ast.copy_location(st, call)
            pre.append(st)
            exprs[p_] = ast.Name(id=tmp, ctx=ast.Load())
    if g.node.args.vararg:
        if not all(_simple(a) for a in extra):
            return None
        exprs[g.node.args.vararg.arg] = ast.Tuple(elts=[copy.deepcopy(a) for a in extra], ctx=ast.Load())
    return pre, exprs, assigned - set(exprs)


def _new_helper(repo, f, fn):
    """FuncInfo + decorators of a new (not inventoried) same-file function/method named by expression fn, or None"""
    g = None
    if isinstance(fn, ast.Attribute) and f.cls is not None and isinstance(fn.value, ast.Name) and fn.value.id in ("self", "cls", f.cls.name):
        g = repo.find_method(f.cls, fn.attr)
    elif isinstance(fn, ast.Name):
        cand = f.mod.functions.get(fn.id)
        if cand is not None and cand.cls is None:
            g = cand
    if g is None or g is f or g.mod is not f.mod or (g.mod.rel, g.dqual) in _known():
        return None
    return g, {ast.unparse(d) for d in g.node.decorator_list}


class _YieldToBody(ast.NodeTransformer):
    def __init__(self, body, asname):
        self.body, self.asname, self.n = body, asname, 0

    def visit_FunctionDef(self, n):
        return n

    visit_Lambda = visit_AsyncFunctionDef = visit_FunctionDef

    def visit_Expr(self, n):
        if isinstance(n.value, ast.Yield):
            self.n += 1
            pre = []
            if self.asname is not None:
                pre = [ast.copy_location(ast.Assign(targets=[copy.deepcopy(self.asname)], value=n.value.value or ast.Constant(value=None)), n)]
            return pre + self.body
        return n


def _expand_with(repo, f, s, depth, stack):
    """`with cm(args): BODY` -> the statements of a *new* single-yield @contextmanager generator with BODY in place of the
    yield (an exception raised by BODY is re-raised at the yield, which is what the surrounding try of the generator sees);
    `with C(args): BODY` / `x = C(args) ... with x: BODY` for a new class whose __exit__ starts with the usual type guard ->
    `try: BODY except <that type>: <rest of __exit__>`.  None when the statement is not of these shapes."""
    if len(s.items) != 1 or depth <= 0:
        return None
    item = s.items[0]
    ce = item.context_expr
    if isinstance(ce, ast.Name):
        # x = C(..) earlier in the function, bound once
        defs = [a for a in ast.walk(f.node) if isinstance(a, ast.Assign) and len(a.targets) == 1 and isinstance(a.targets[0], ast.Name) and a.targets[0].id == ce.id]
        if len(defs) == 1 and isinstance(defs[0].value, ast.Call):
            ce = defs[0].value
    if not isinstance(ce, ast.Call):
        return None
    k = next(_counter)
    suffix = "__inl%d" % k
    r = _new_helper(repo, f, ce.func)
    if r is not None:
        g, decos = r
        if not (decos & _CM_DECOS) or (decos - _CM_DECOS - {"staticmethod"}) or g.key in stack:
            return None
        yields = [n for n in _walk_no_nested_stmt(g.node) if isinstance(n, (ast.Yield, ast.YieldFrom))]
        if len(yields) != 1 or any(isinstance(n, ast.Return) for n in _walk_no_nested_stmt(g.node)):
            return None
        b = _bind_args(g, decos, ce, suffix, allow_vararg=True)
        if b is None:
            return None
        pre, exprs, local_names = b
        body = list(g.node.body)
        if body and isinstance(body[0], ast.Expr) and isinstance(body[0].value, ast.Constant) and isinstance(body[0].value.value, str):
            body = body[1:]
        sub = _Subst(local_names, exprs, suffix, "__ret%d" % k, False)
        new = []
        for st in copy.deepcopy(body):
            o = sub.visit(st)
            new.extend(o if isinstance(o, list) else [o])
        y2b = _YieldToBody(s.body, item.optional_vars)
        out = []
        for st in new:
            o = y2b.visit(st)
            out.extend(o if isinstance(o, list) else [o])
        if y2b.n != 1:
            return None
        for st in pre + out:
            ast.fix_missing_locations(st)
        res = []
        for st in pre + out:
            o = _inline_stmt(repo, f, st, depth - 1, stack | {g.key})
            res.extend(o if isinstance(o, list) else [o])
        return res
    # class-based
    if isinstance(ce.func, ast.Name) and item.optional_vars is None:
        c = f.mod.classes.get(ce.func.id)
        if c is None or any((c.mod.rel if hasattr(c, "mod") else f.mod.rel, m.dqual) in _known() for m in c.methods.values()):
            return None
        init, ent, ext = c.methods.get("__init__"), c.methods.get("__enter__"), c.methods.get("__exit__")
        if init is None or ent is None or ext is None:
            return None
        # __init__: self.a = a only
        attrs = {}
        for st in init.node.body:
            if isinstance(st, ast.Expr) and isinstance(st.value, ast.Constant):
                continue
            if isinstance(st, ast.Assign) and len(st.targets) == 1 and isinstance(st.targets[0], ast.Attribute) and isinstance(st.targets[0].value, ast.Name) and st.targets[0].value.id == "self" and isinstance(st.value, ast.Name):
                attrs[st.targets[0].attr] = st.value.id
            else:
                return None
        b = _bind_args(init, set(), ce, suffix, allow_vararg=True)
        if b is None:
            return None
        pre, exprs, _ = b
        eparams = [a.arg for a in ext.node.args.args]
        if len(eparams) != 4:
            return None
        et = eparams[1]
        body = list(ext.node.body)
        if body and isinstance(body[0], ast.Expr) and isinstance(body[0].value, ast.Constant):
            body = body[1:]
        if not body or not isinstance(body[0], ast.If):
            return None
        g0 = ast.unparse(body[0].test).replace(" ", "")
        exc = rest = None
        import re as _re
        m1 = _re.fullmatch(r"%sisNoneornotissubclass\(%s,(\w+)\)" % (et, et), g0)
        m2 = _re.fullmatch(r"%sisnotNoneandissubclass\(%s,(\w+)\)" % (et, et), g0)
        passthrough = None   # exception classes that leave the block untouched (re-raised before the clean-up handler)
        if m1 and len(body[0].body) == 1 and isinstance(body[0].body[0], ast.Return) and not body[0].orelse:
            exc, rest = m1.group(1), body[1:]
        elif m2 and not body[0].orelse and all(isinstance(x, ast.Return) for x in body[1:]):
            exc, rest = m2.group(1), body[0].body
            # `if not issubclass(exc_type, self.expected): <clean-up>` inside the guard
            if len(rest) == 1 and isinstance(rest[0], ast.If) and not rest[0].orelse:
                m3 = _re.fullmatch(r"notissubclass\(%s,self\.(\w+)\)" % et, ast.unparse(rest[0].test).replace(" ", ""))
                if m3 and m3.group(1) in attrs and attrs[m3.group(1)] in exprs:
                    passthrough = copy.deepcopy(exprs[attrs[m3.group(1)]])
                    rest = rest[0].body
        if exc is None:
            return None

        class _SelfAttr(ast.NodeTransformer):
            def visit_Attribute(self, n):
                if isinstance(n.value, ast.Name) and n.value.id == "self" and n.attr in attrs and attrs[n.attr] in exprs:
                    return copy.deepcopy(exprs[attrs[n.attr]])
                return self.generic_visit(n)

            def visit_Name(self, n):
                return n

            def visit_Return(self, n):
                swallow = isinstance(n.value, ast.Constant) and n.value.value is True
                return ast.copy_location(ast.Pass() if swallow else ast.Raise(exc=None, cause=None), n)

        hbody = []
        for st in copy.deepcopy(rest):
            o = _SelfAttr().visit(st)
            hbody.append(o)
        if not hbody or not isinstance(hbody[-1], (ast.Raise, ast.Pass)):
            hbody.append(ast.Raise(exc=None, cause=None))
        handlers = []
        if passthrough is not None:
            handlers.append(ast.ExceptHandler(type=passthrough, name=None, body=[ast.Raise(exc=None, cause=None)]))
        handlers.append(ast.ExceptHandler(type=ast.Name(id=exc, ctx=ast.Load()), name=None, body=hbody))
        tr = ast.Try(body=s.body, handlers=handlers, orelse=[], finalbody=[])
        ast.copy_location(tr, s)
        for st in pre + [tr]:
            ast.fix_missing_locations(st)
        res = []
        for st in pre + [tr]:
            o = _inline_stmt(repo, f, st, depth - 1, stack)
            res.extend(o if isinstance(o, list) else [o])
        return res
    return None


def _walk_no_nested_stmt(node):
    yield node
    for ch in ast.iter_child_nodes(node):
        if isinstance(ch, (ast.FunctionDef, ast.AsyncFunctionDef, ast.Lambda, ast.ClassDef)):
            continue
        yield from _walk_no_nested_stmt(ch)


def _inline_stmt(repo, f, s, depth, stack):
    """statement -> statement or list of statements with whole-statement helper calls expanded; recurses into blocks"""
    def blocks(st):
        for fld in ("body", "orelse", "finalbody"):
            b = getattr(st, fld, None)
            if isinstance(b, list) and b and isinstance(b[0], ast.stmt):
                nb = []
                for x in b:
                    r = _inline_stmt(repo, f, x, depth, stack)
                    nb.extend(r if isinstance(r, list) else [r])
                setattr(st, fld, nb)
        for h in getattr(st, "handlers", []) or []:
            nb = []
            for x in h.body:
                r = _inline_stmt(repo, f, x, depth, stack)
                nb.extend(r if isinstance(r, list) else [r])
            h.body = nb
        return st

    if isinstance(s, (ast.FunctionDef, ast.AsyncFunctionDef, ast.ClassDef)):
        return s
    if isinstance(s, ast.With):
        blocks(s)
        r = _expand_with(repo, f, s, depth, stack)
        if r is not None:
            return r
        return s
    if isinstance(s, (ast.Assign, ast.Return)) and isinstance(s.value, ast.IfExp) and depth > 0:
        # `x = helper(..) if c else y`  ->  `if c: x = helper(..) else: x = y` when an arm is an expandable call
        ie = s.value
        if any(isinstance(a, ast.Call) and _callee(repo, f, a) is not None for a in (ie.body, ie.orelse)):
            def arm(v):
                n = copy.copy(s)
                n.value = v
                return n
            st = ast.If(test=ie.test, body=[arm(ie.body)], orelse=[arm(ie.orelse)])
            ast.copy_location(st, s)
            ast.fix_missing_locations(st)
            return _inline_stmt(repo, f, st, depth, stack)
    call, setter = None, None
    if isinstance(s, ast.Expr) and isinstance(s.value, ast.Call):
        call = s.value
        setter = lambda e: None
    elif isinstance(s, (ast.Assign, ast.AnnAssign, ast.AugAssign)) and isinstance(s.value, ast.Call):
        call = s.value
        setter = lambda e: setattr(s, "value", e)
    elif isinstance(s, ast.Return) and isinstance(s.value, ast.Call):
        call = s.value
        setter = lambda e: setattr(s, "value", e)
    elif isinstance(s, (ast.If, ast.While)):
        t = s.test
        if isinstance(t, ast.Call):
            call = t
            setter = lambda e: setattr(s, "test", e)
        elif isinstance(t, ast.UnaryOp) and isinstance(t.op, ast.Not) and isinstance(t.operand, ast.Call) and isinstance(s, ast.If):
            call = t.operand
            setter = lambda e: setattr(t, "operand", e)
        if isinstance(s, ast.While):
            call = None  # the test is re-evaluated on every iteration: not expanded
    if call is not None:
        r = _expand(repo, f, call, depth, stack)
        if r is not None:
            pre, repl = r
            if isinstance(s, ast.Expr):
                return pre
            setter(repl)
            return pre + [blocks(s)]
    return blocks(s)


def inlined(repo, f, depth=3):
    """FunctionDef of f with its private same-file helpers expanded in place (cached).  Returns f.node itself when nothing was
    expanded, so that rules keep statement identity with the index where they need it."""
    key = (id(repo), f.key)
    if key in _CACHE:
        return _CACHE[key]
    fn = copy.deepcopy(f.node)
    before = ast.dump(fn)
    nb = []
    for s in fn.body:
        r = _inline_stmt(repo, f, s, depth, frozenset([f.key]))
        nb.extend(r if isinstance(r, list) else [r])
    fn.body = nb
    ast.fix_missing_locations(fn)
    res = f.node if ast.dump(fn) == before else fn
    _CACHE[key] = res
    return res


def helpers_of(repo, f, depth=3):
    """the private same-file helpers f reaches through expandable calls (for evidence / messages)"""
    out, seen = [], {f.key}

    def rec(g, d):
        if d <= 0:
            return
        for c in ast.walk(g.node):
            if isinstance(c, ast.With):
                for it in c.items:
                    if isinstance(it.context_expr, ast.Call):
                        r = _new_helper(repo, g, it.context_expr.func)
                        if r is not None and (r[1] & _CM_DECOS) and r[0].key not in seen:
                            seen.add(r[0].key)
                            out.append(r[0])
                            rec(r[0], d - 1)
            if isinstance(c, ast.Call):
                r = _callee(repo, g, c)
                if r is not None and r[0].key not in seen:
                    seen.add(r[0].key)
                    out.append(r[0])
                    rec(r[0], d - 1)

    rec(f, depth)
    return out
