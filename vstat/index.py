"""E1: module / class / function index of the amoco tree, with star-import closure.

Pure `ast`; the analysed tree is never imported.
"""
import ast
import builtins
import os
import hashlib
import warnings
import re

from . import REPO


class AnalysisError(Exception):
    """The analysis itself is broken (anchor vanished, floor not met...)."""


SKIP_DIRS = ("amoco/ui/graphics",)


class FuncInfo:
    __slots__ = ("mod", "qual", "node", "cls", "name", "parent", "raw")

    def __init__(self, mod, qual, node, cls=None, parent=None):
        self.mod = mod
        self.qual = qual
        self.node = node
        self.cls = cls
        self.name = node.name
        self.parent = parent

    @property
    def file(self):
        return self.mod.rel

    @property
    def dqual(self):
        """display/qualification name used in report keys: redefinition counters (#k) removed,
        so adding or removing an unrelated same-named function does not change a key."""
        return re.sub(r"#\d+", "", self.qual)

    @property
    def key(self):
        return "%s::%s" % (self.mod.rel, self.qual)

    def params(self):
        a = self.node.args
        return [x.arg for x in a.posonlyargs + a.args + a.kwonlyargs]

    def __repr__(self):
        return "<F %s>" % self.key


class ClassInfo:
    __slots__ = ("mod", "name", "node", "bases", "methods", "qual")

    def __init__(self, mod, name, node, qual=None):
        self.mod = mod
        self.name = name
        self.node = node
        self.qual = qual or name
        self.bases = []
        for b in node.bases:
            if isinstance(b, ast.Name):
                self.bases.append(b.id)
            elif isinstance(b, ast.Attribute):
                self.bases.append(b.attr)
            else:
                self.bases.append(None)
        self.methods = {}

    def __repr__(self):
        return "<C %s:%s>" % (self.mod.name, self.name)


class ModuleInfo:
    def __init__(self, name, path, rel, src, tree, is_pkg):
        self.name = name
        self.path = path
        self.rel = rel
        self.src = src
        self.tree = tree
        self.is_pkg = is_pkg
        self.lines = src.splitlines()
        # name -> list of binding descriptors ('def', node) / ('class', node) /
        # ('assign', node) / ('import', modname) / ('from', modname, attr)
        self.bindings = {}
        self.stars = []  # resolved module names of `from X import *`
        self.all = None
        self.functions = {}  # qual -> FuncInfo
        self.classes = {}  # name -> ClassInfo
        self.open = False  # has unresolvable star import / dynamic globals

    @property
    def package(self):
        return self.name if self.is_pkg else self.name.rpartition(".")[0]

    def seg(self, node):
        try:
            return ast.get_source_segment(self.src, node) or ""
        except Exception:
            return ""


def norm(node_or_src):
    """normalised construct text: ast.unparse (formatting-independent)."""
    if isinstance(node_or_src, str):
        return " ".join(node_or_src.split())
    try:
        return " ".join(ast.unparse(node_or_src).split())
    except Exception:
        return "<?>"


class Repo:
    def __init__(self, root=None):
        self.root = root or REPO
        self.modules = {}
        self.byrel = {}
        self._exports = {}
        self._load()
        for m in self.modules.values():
            self._bind_module(m)

    # ------------------------------------------------------------------ load
    def _load(self):
        base = os.path.join(self.root, "amoco")
        if not os.path.isdir(base):
            raise AnalysisError("no amoco package under %s" % self.root)
        nfiles = 0
        for dp, dn, fn in os.walk(base):
            dn.sort()
            rel_dp = os.path.relpath(dp, self.root)
            if any(rel_dp == s or rel_dp.startswith(s + os.sep) for s in SKIP_DIRS):
                dn[:] = []
                continue
            for f in sorted(fn):
                if not f.endswith(".py"):
                    continue
                path = os.path.join(dp, f)
                rel = os.path.relpath(path, self.root)
                with open(path, "rb") as fh:
                    raw = fh.read()
                try:
                    src = raw.decode("utf-8")
                    with warnings.catch_warnings():
                        warnings.simplefilter("ignore")
                        tree = ast.parse(src, filename=rel)
                except (SyntaxError, UnicodeDecodeError) as e:
                    raise AnalysisError("cannot parse %s: %s" % (rel, e))
                parts = rel[:-3].split(os.sep)
                is_pkg = parts[-1] == "__init__"
                if is_pkg:
                    parts = parts[:-1]
                name = ".".join(parts)
                m = ModuleInfo(name, path, rel, src, tree, is_pkg)
                self.modules[name] = m
                self.byrel[rel] = m
                nfiles += 1
        if nfiles < 150:
            raise AnalysisError("only %d source files found under %s" % (nfiles, base))

    def digest(self, rels=None):
        h = hashlib.sha256()
        for rel in sorted(rels or self.byrel):
            h.update(rel.encode())
            h.update(self.byrel[rel].src.encode())
        return h.hexdigest()[:16]

    # ------------------------------------------------------------ bindings
    def resolve_from(self, mod, node):
        """absolute module name targeted by an ImportFrom node in `mod`."""
        if node.level == 0:
            return node.module
        pkg = mod.package.split(".")
        if node.level > 1:
            pkg = pkg[: len(pkg) - (node.level - 1)]
        base = ".".join(pkg)
        if node.module:
            return base + "." + node.module
        return base

    def _bind_module(self, m):
        def bind(name, desc):
            m.bindings.setdefault(name, []).append(desc)

        def targets(t, node):
            if isinstance(t, ast.Name):
                bind(t.id, ("assign", node))
            elif isinstance(t, (ast.Tuple, ast.List)):
                for e in t.elts:
                    targets(e, node)
            elif isinstance(t, ast.Starred):
                targets(t.value, node)

        def walk(stmts):
            for s in stmts:
                if isinstance(s, (ast.FunctionDef, ast.AsyncFunctionDef)):
                    bind(s.name, ("def", s))
                elif isinstance(s, ast.ClassDef):
                    bind(s.name, ("class", s))
                elif isinstance(s, ast.Assign):
                    for t in s.targets:
                        targets(t, s)
                    if (
                        len(s.targets) == 1
                        and isinstance(s.targets[0], ast.Name)
                        and s.targets[0].id == "__all__"
                    ):
                        try:
                            m.all = list(ast.literal_eval(s.value))
                        except Exception:
                            m.all = None
                elif isinstance(s, (ast.AugAssign, ast.AnnAssign)):
                    targets(s.target, s)
                elif isinstance(s, ast.Import):
                    for a in s.names:
                        if a.asname:
                            bind(a.asname, ("import", a.name))
                        else:
                            bind(a.name.split(".")[0], ("import", a.name.split(".")[0]))
                elif isinstance(s, ast.ImportFrom):
                    tgt = self.resolve_from(m, s)
                    for a in s.names:
                        if a.name == "*":
                            m.stars.append(tgt)
                            if tgt not in self.modules:
                                m.open = True
                        else:
                            bind(a.asname or a.name, ("from", tgt, a.name))
                elif isinstance(s, (ast.For, ast.AsyncFor)):
                    targets(s.target, s)
                    walk(s.body)
                    walk(s.orelse)
                elif isinstance(s, ast.While):
                    walk(s.body)
                    walk(s.orelse)
                elif isinstance(s, ast.If):
                    walk(s.body)
                    walk(s.orelse)
                elif isinstance(s, (ast.With, ast.AsyncWith)):
                    for it in s.items:
                        if it.optional_vars is not None:
                            targets(it.optional_vars, s)
                    walk(s.body)
                elif isinstance(s, ast.Try):
                    walk(s.body)
                    for h in s.handlers:
                        if h.name:
                            bind(h.name, ("assign", h))
                        walk(h.body)
                    walk(s.orelse)
                    walk(s.finalbody)
                elif isinstance(s, ast.Delete):
                    pass
            # walrus / comprehension vars at module level are ignored

        walk(m.tree.body)
        # names bound at module level through walrus
        for n in ast.walk(m.tree):
            if isinstance(n, ast.NamedExpr) and isinstance(n.target, ast.Name):
                pass
        # `global x` inside functions + assignment => module binding
        for fn in ast.walk(m.tree):
            if isinstance(fn, (ast.FunctionDef, ast.AsyncFunctionDef)):
                gl = set()
                for n in ast.walk(fn):
                    if isinstance(n, ast.Global):
                        gl.update(n.names)
                if gl:
                    for n in ast.walk(fn):
                        if isinstance(n, ast.Name) and isinstance(n.ctx, ast.Store) and n.id in gl:
                            bind(n.id, ("assign", n))
        # dynamic globals
        for n in ast.walk(m.tree):
            if isinstance(n, ast.Call) and isinstance(n.func, ast.Name) and n.func.id in ("globals", "exec"):
                # `globals()[...] = ` style dynamic definitions
                m.open = m.open or _is_globals_store(m.tree, n)
        # functions and classes
        self._collect_defs(m, m.tree.body, "", None, None)

    def _collect_defs(self, m, stmts, prefix, cls, parent):
        for s in stmts:
            if isinstance(s, (ast.FunctionDef, ast.AsyncFunctionDef)):
                qual = prefix + s.name
                if qual in m.functions:
                    # redefinition: the k-th definition of the same qualified name is `qual#k`
                    k = 2
                    while "%s#%d" % (qual, k) in m.functions:
                        k += 1
                    qual = "%s#%d" % (qual, k)
                fi = FuncInfo(m, qual, s, cls=cls, parent=parent)
                m.functions[qual] = fi
                if cls is not None and parent is None:
                    cls.methods[s.name] = fi
                self._collect_defs(m, s.body, qual + ".<locals>.", None, fi)
            elif isinstance(s, ast.ClassDef):
                ci = ClassInfo(m, s.name, s, prefix + s.name)
                if not prefix:
                    m.classes[s.name] = ci
                else:
                    m.classes.setdefault(prefix + s.name, ci)
                self._collect_defs(m, s.body, prefix + s.name + ".", ci, None)
            elif isinstance(s, (ast.If, ast.For, ast.While, ast.With, ast.Try)):
                for fld in ("body", "orelse", "finalbody"):
                    self._collect_defs(m, getattr(s, fld, []) or [], prefix, cls, parent)
                for h in getattr(s, "handlers", []) or []:
                    self._collect_defs(m, h.body, prefix, cls, parent)

    # ------------------------------------------------------------- exports
    def exports(self, modname, _seen=None):
        """names a `from modname import *` brings in (None = unknown module)."""
        if modname in self._exports:
            return self._exports[modname]
        m = self.modules.get(modname)
        if m is None:
            return None
        _seen = _seen or set()
        if modname in _seen:
            return set()
        _seen.add(modname)
        names = set(self.namespace(modname, _seen))
        if m.all is not None:
            res = set(m.all)
        else:
            res = {n for n in names if not n.startswith("_")}
        self._exports[modname] = res
        return res

    def namespace(self, modname, _seen=None):
        """all names defined at top level of module (own + star imports)."""
        m = self.modules[modname]
        names = set(m.bindings)
        for s in m.stars:
            e = self.exports(s, _seen)
            if e is not None:
                names |= e
        return names

    def is_open(self, modname, _seen=None):
        m = self.modules.get(modname)
        if m is None:
            return True
        _seen = _seen or set()
        if modname in _seen:
            return False
        _seen.add(modname)
        if m.open:
            return True
        return any(self.is_open(s, _seen) for s in m.stars)

    def lookup(self, modname, name, _seen=None):
        """resolve a top-level name of a module to its defining (module, descriptor).

        returns (ModuleInfo, desc) or None.  Follows `from x import y` and star imports.
        desc for a submodule is ('module', name).
        """
        _seen = _seen or set()
        if (modname, name) in _seen:
            return None
        _seen.add((modname, name))
        m = self.modules.get(modname)
        if m is None:
            return None
        if name in m.bindings:
            desc = m.bindings[name][-1]
            if desc[0] == "from":
                tgt, attr = desc[1], desc[2]
                if tgt + "." + attr in self.modules:
                    r = self.lookup(tgt, attr, _seen)
                    if r is not None and r[1][0] != "module":
                        return r
                    return (self.modules[tgt + "." + attr], ("module", tgt + "." + attr))
                if tgt in self.modules:
                    return self.lookup(tgt, attr, _seen)
                return (None, ("external", tgt, attr))
            if desc[0] == "import":
                if desc[1] in self.modules:
                    return (self.modules[desc[1]], ("module", desc[1]))
                return (None, ("external", desc[1], None))
            return (m, desc)
        for s in reversed(m.stars):
            e = self.exports(s)
            if e is not None and name in e:
                r = self.lookup(s, name, _seen)
                if r is not None:
                    return r
        if m.is_pkg and modname + "." + name in self.modules:
            return (self.modules[modname + "." + name], ("module", modname + "." + name))
        return None

    def lookup_all(self, modname, name):
        """all binding descriptors (own module only) for name"""
        m = self.modules.get(modname)
        return m.bindings.get(name, []) if m else []

    # ------------------------------------------------------------- classes
    def find_class(self, modname, name):
        r = self.lookup(modname, name)
        if r and r[0] is not None and r[1][0] == "class":
            return r[0].classes.get(r[1][1].name)
        return None

    def mro(self, ci, _seen=None):
        """by-name linearisation (depth-first, left to right, dedup)."""
        out = [ci]
        _seen = _seen or {id(ci)}
        for b in ci.bases:
            if b is None:
                continue
            bc = self.find_class(ci.mod.name, b)
            if bc is not None and id(bc) not in _seen:
                _seen.add(id(bc))
                out.extend(self.mro(bc, _seen))
        return out

    def find_method(self, ci, name):
        for c in self.mro(ci):
            if name in c.methods:
                return c.methods[name]
        return None

    def all_functions(self):
        for m in self.modules.values():
            for f in m.functions.values():
                yield f

    def all_classes(self):
        for m in self.modules.values():
            for c in m.classes.values():
                yield c

    def mod(self, rel_or_name):
        if rel_or_name in self.byrel:
            return self.byrel[rel_or_name]
        if rel_or_name in self.modules:
            return self.modules[rel_or_name]
        raise AnalysisError("anchor module vanished: %s" % rel_or_name)

    def func(self, rel, qual, inline=True):
        """anchor function of a rule.  In the *inlined view* (self.inline_view, switched on by the harness for the second look at a
        rule that reported or lost its anchor) the returned FuncInfo carries the function with its private same-file helpers
        expanded in place (vstat.inline) and canonicalised (vstat.canon: definitions resolved, used-once temporaries folded,
        comparisons written with < / <=): the intraprocedural rules then see through helper extraction.  `raw` is the indexed
        FuncInfo itself."""
        m = self.mod(rel)
        if qual not in m.functions:
            raise AnalysisError("anchor function vanished: %s::%s" % (rel, qual))
        f = m.functions[qual]
        if not inline or not getattr(self, "inline_view", False):
            return f
        from .inline import inlined

        from .canon import canonical

        ck = ("canon", f.key)
        cache = self.__dict__.setdefault("_canon_cache", {}) if hasattr(self, "__dict__") else {}
        if ck not in cache:
            exp = inlined(self, f)
            cache[ck] = canonical(exp)
            cache[("expanded", f.key)] = exp is not f.node
        if cache.get(("expanded", f.key)):
            self.inline_hits = getattr(self, "inline_hits", 0) + 1
        node = cache[ck]
        import copy as _copy

        g = _copy.copy(f)
        g.node = node
        g.raw = f
        return g


def _is_globals_store(tree, call):
    for n in ast.walk(tree):
        if isinstance(n, (ast.Assign, ast.AugAssign)):
            tgts = n.targets if isinstance(n, ast.Assign) else [n.target]
            for t in tgts:
                if isinstance(t, ast.Subscript) and t.value is call:
                    return True
        if (
            isinstance(n, ast.Call)
            and isinstance(n.func, ast.Attribute)
            and n.func.attr in ("update", "setdefault")
            and n.func.value is call
        ):
            return True
    return False


BUILTINS = set(dir(builtins)) | {"__file__", "__name__", "__doc__", "__package__", "__builtins__", "__spec__", "__path__", "__loader__", "__class__"}

_REPO_CACHE = {}


def get_repo(root=None):
    root = root or REPO
    if root not in _REPO_CACHE:
        _REPO_CACHE[root] = Repo(root)
    return _REPO_CACHE[root]
