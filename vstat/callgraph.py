"""E5: name-resolved call/reference graph.

Edges: f -> g when f's body loads a name that resolves (through module bindings and
star-imports) to a module-level `def g`, or calls `M.g` for an amoco module M, or
`self.g`/`cls.g` resolved through the by-name MRO, or constructs a class (-> __init__).
Nested functions are reached with their parent.  Unresolvable callees are ignored
(rules that need may-call soundness treat them separately).
"""
import ast

from .index import AnalysisError


class CallGraph:
    def __init__(self, repo):
        self.repo = repo
        self._edges = {}

    def fkey(self, f):
        return (f.mod.name, f.qual)

    def resolve_name(self, mod, name):
        """FuncInfo | ClassInfo | ('module', name) | None for a top-level name of mod."""
        r = self.repo.lookup(mod.name, name)
        if not r or r[0] is None:
            return None
        m, desc = r
        if desc[0] == "def":
            for f in m.functions.values():
                if f.node is desc[1]:
                    return f
            return None
        if desc[0] == "class":
            return m.classes.get(desc[1].name)
        if desc[0] == "module":
            return ("module", desc[1])
        return None

    def callees(self, f):
        k = self.fkey(f)
        if k in self._edges:
            return self._edges[k]
        out = []
        seen = set()
        repo = self.repo
        from .scopes import local_bindings

        loc = local_bindings(f.node)

        def add(x):
            if x is None:
                return
            if isinstance(x, tuple):
                return
            if hasattr(x, "methods"):  # class -> constructor
                init = repo.find_method(x, "__init__")
                if init is not None:
                    add(init)
                return
            if id(x) not in seen:
                seen.add(id(x))
                out.append(x)

        for n in ast.walk(f.node):
            if isinstance(n, ast.Name) and isinstance(n.ctx, ast.Load):
                if n.id in loc:
                    continue
                add(self.resolve_name(f.mod, n.id))
            elif isinstance(n, ast.Attribute) and isinstance(n.ctx, ast.Load):
                v = n.value
                if isinstance(v, ast.Name):
                    if v.id in ("self", "cls") and f.cls is not None:
                        add(repo.find_method(f.cls, n.attr))
                    elif v.id not in loc:
                        t = self.resolve_name(f.mod, v.id)
                        if isinstance(t, tuple):
                            tm = repo.modules.get(t[1])
                            if tm is not None:
                                add(self.resolve_name(tm, n.attr))
                        elif t is not None and hasattr(t, "methods"):
                            add(repo.find_method(t, n.attr))
        # nested defs
        for g in f.mod.functions.values():
            if g.parent is f:
                add(g)
        self._edges[k] = out
        return out

    def reachable(self, roots):
        seen = {}
        work = list(roots)
        while work:
            f = work.pop()
            k = self.fkey(f)
            if k in seen:
                continue
            seen[k] = f
            work.extend(self.callees(f))
        return seen


def module_level_func_refs(repo, m, cg):
    """functions referenced by name from module-level code of m (tables, registries)."""
    out = []
    for s in m.tree.body:
        if isinstance(s, (ast.FunctionDef, ast.AsyncFunctionDef, ast.ClassDef)):
            continue
        for n in ast.walk(s):
            if isinstance(n, ast.Name) and isinstance(n.ctx, ast.Load):
                t = cg.resolve_name(m, n.id)
                if t is not None and not isinstance(t, tuple) and not hasattr(t, "methods"):
                    out.append(t)
            elif isinstance(n, ast.Lambda):
                pass
    return out


def arch_roots(repo, cg, skip_cpus=None):
    """C17 entry points per cpu module: spec hooks, i_* semantics, formatter functions.

    returns (roots list, info dict)"""
    from .ispecmodel import cpu_table
    from .rules.spec import spec_includes, specs

    cpus = cpu_table(repo)
    ext = spec_includes(repo)
    decls, _ = specs(repo)
    hooks_by_mod = {}
    for s in decls:
        hooks_by_mod.setdefault(s.func.mod.name, {})[id(s.func)] = s.func
    roots = []
    info = {"cpus": len(cpus), "hooks": 0, "semantics": 0, "formatters": 0}
    specmods = set()
    skip = set(skip_cpus or ())
    for cname, ent in cpus.items():
        if cname in skip:
            continue
        cm = repo.modules[cname]
        for sm in ent["specmods"]:
            if sm is None:
                continue
            specmods.add(sm)
            specmods |= ext.get(sm, set())
        # uarch: every i_* name of the cpu module namespace
        for name in sorted(repo.namespace(cname)):
            if name.startswith("i_"):
                t = cg.resolve_name(cm, name)
                if t is not None and not isinstance(t, tuple) and not hasattr(t, "methods"):
                    roots.append(t)
                    info["semantics"] += 1
        # formatter modules: imported by the cpu module (`from X.formats import Y`)
        fmods = set()
        for nm, descs in cm.bindings.items():
            for d in descs:
                if d[0] == "from" and d[1] in repo.modules and d[1].rpartition(".")[2].startswith("formats"):
                    fmods.add(d[1])
        for st in cm.stars:
            if st in repo.modules and st.rpartition(".")[2].startswith("formats"):
                fmods.add(st)
        for fmn in sorted(fmods):
            for t in module_level_func_refs(repo, repo.modules[fmn], cg):
                roots.append(t)
                info["formatters"] += 1
        info.setdefault("formatter_modules", set()).update(fmods)
    for sm in sorted(specmods):
        for f in hooks_by_mod.get(sm, {}).values():
            roots.append(f)
            info["hooks"] += 1
    info["specmods"] = sorted(specmods)
    info["formatter_modules"] = len(info.get("formatter_modules", ()))
    # generic machinery
    for rel, qual in (
        ("amoco/arch/core.py", "disassembler.__call__"),
        ("amoco/arch/core.py", "ispec.decode"),
        ("amoco/arch/core.py", "icore.__call__"),
        ("amoco/arch/core.py", "Formatter.__call__"),
        ("amoco/arch/core.py", "instruction.formatter"),
        ("amoco/arch/core.py", "ispec.__getstate__"),
        ("amoco/arch/core.py", "ispec.__setstate__"),
        ("amoco/system/core.py", "CoreExec.read_instruction"),
        ("amoco/sa/lsweep.py", "lsweep.sequence"),
        ("amoco/emu.py", "emul.stepi"),
    ):
        roots.append(repo.func(rel, qual))
    return roots, info
