"""E7: rule registry, known-findings matcher, evidence writer, replay files."""
import json
import os
import sys
import time
import traceback

from . import VERIF, REPO
from .index import AnalysisError, get_repo

KNOWN_FILE = os.path.join(VERIF, "KNOWN_FINDINGS.txt")
EVIDENCE_DIR = os.environ.get("VERIF_EVIDENCE_DIR") or os.path.join(VERIF, "evidence")


class Report:
    """A definite breach of a rule at a named construct."""

    __slots__ = ("rule", "file", "func", "construct", "line", "msg", "detail")

    def __init__(self, rule, file, func, construct, line, msg, detail=None):
        self.rule = rule
        self.file = file
        self.func = func
        self.construct = " ".join(str(construct).split())
        self.line = line
        self.msg = msg
        self.detail = detail or {}

    @property
    def key(self):
        return "%s::%s::%s" % (self.file, self.func, self.construct)

    def asdict(self):
        return {
            "rule": self.rule,
            "file": self.file,
            "line": self.line,
            "function": self.func,
            "construct": self.construct,
            "key": self.key,
            "message": self.msg,
            "detail": self.detail,
        }

    def __str__(self):
        return "%s %s:%s in %s: %s [%s]" % (self.rule, self.file, self.line, self.func, self.msg, self.construct)


class RuleOut:
    """Result of one rule on the tree."""

    def __init__(self, rule, what):
        self.rule = rule
        self.what = what  # one sentence: the rule applied
        self.instances = 0  # obligations analysed
        self.nontrivial = set()  # distinct keys where the rule had something to decide
        self.samples = []
        self.reports = []
        self.undecided = []
        self.stats = {}

    def inst(self, key, sample=None, nontrivial=True):
        self.instances += 1
        if nontrivial:
            self.nontrivial.add(key)
        if sample is not None and len(self.samples) < 6:
            self.samples.append(sample)

    def report(self, *a, **k):
        r = Report(self.rule, *a, **k)
        self.reports.append(r)
        return r

    def undecide(self, file, func, construct, why):
        self.undecided.append({"file": file, "function": func, "construct": " ".join(str(construct).split())[:200], "why": why})

    def floor(self, n, what="instances"):
        if self.instances < n:
            raise AnalysisError(
                "%s: only %d %s analysed, floor is %d (rule would pass vacuously)" % (self.rule, self.instances, what, n)
            )


def load_known():
    known = {}
    fixed = []
    if not os.path.exists(KNOWN_FILE):
        return known, fixed
    for ln in open(KNOWN_FILE, encoding="utf-8"):
        ln = ln.rstrip("\n")
        if not ln.strip() or ln.startswith("#"):
            continue
        if ln.startswith("known:"):
            head, _, rest = ln[6:].partition(" | ")
            f = {}
            toks = head.strip().split(" ", 2)
            for t in toks[:2]:
                k, _, v = t.partition("=")
                f[k] = v
            keypart = toks[2] if len(toks) > 2 else ""
            if not keypart.startswith("key="):
                raise AnalysisError("malformed known-findings line: %s" % ln)
            f["key"] = keypart[4:].strip()
            f["what"] = rest.strip()
            known[(f.get("property"), f.get("rule"), f["key"])] = f
        elif ln.startswith("fixed:"):
            fixed.append(ln)
        else:
            raise AnalysisError("malformed known-findings line: %s" % ln)
    return known, fixed


def _as_list(r):
    return [r] if isinstance(r, RuleOut) else list(r)


THIRD_LOOK_EXCLUDED = {"R-XFER", "R-BOUNDARY"}


def _has_new_helpers(repo):
    v = getattr(repo, "_new_helpers", None)
    if v is None:
        from .inline import _known
        kn = _known()
        v = any((f.mod.rel, f.dqual) not in kn for m in repo.modules.values() if m.rel.startswith("amoco/") for f in m.functions.values() if f.parent is None)
        try:
            repo._new_helpers = v
        except AttributeError:
            pass
    return v


def two_views(repo, fn, tier, pid, known):
    """Run one rule on the functions as written; if it reports something new or loses an anchor, look a second time with the
    anchor functions' private same-file helpers expanded in place (vstat.inline).  A violation must be visible in both views:
    a maintainer who moves the reset / the length test / the rollback into a helper has not removed it.  The second view never
    adds reports of its own."""
    repo.inline_view = False
    err = None
    try:
        raw = _as_list(fn(repo, tier))
    except AnalysisError as e:
        raw, err = None, e
    new_raw = [] if raw is None else [rep for o in raw for rep in o.reports if (pid, rep.rule, rep.key) not in known]
    if raw is not None and not new_raw:
        # nothing reported on the functions as written.  When the tree has private helpers that did not exist at review time
        # and this rule's anchor functions call some, the rule also looks at the expanded functions: a reset / store / test
        # that a refactoring dropped *inside a new helper* is invisible in the first view.  Reports of this third look are
        # kept only when an expansion really took place
        if _has_new_helpers(repo):
            repo.inline_view, repo.inline_hits = True, 0
            try:
                third = _as_list(fn(repo, tier))
            except AnalysisError:
                third = None
            finally:
                repo.inline_view = False
            if third is not None and getattr(repo, "inline_hits", 0) > 0:
                # rules whose reading of the expanded text produced false alarms on the recorded behaviour-preserving
                # refactorings (def-use through expansion temporaries, comparisons re-associated by the canonicaliser) do not
                # get a third look
                for o in third:
                    o.reports = [rep for rep in o.reports if (pid, rep.rule, rep.key) in known or rep.rule not in THIRD_LOOK_EXCLUDED]
                fresh = [rep for o in third for rep in o.reports if (pid, rep.rule, rep.key) not in known]
                if fresh:
                    for o in third:
                        o.what += "  [reported on the helper-expanded view: the functions as written delegate to private helpers written after the review]"
                    return third
        return raw
    repo.inline_view = True
    try:
        try:
            inl = _as_list(fn(repo, tier))
        except AnalysisError as e2:
            if raw is None:
                raise err
            return raw
    finally:
        repo.inline_view = False
    new_inl = [rep for o in inl for rep in o.reports if (pid, rep.rule, rep.key) not in known]
    if raw is None:
        # the anchor was only recognisable with the helpers expanded: that view decides
        for o in inl:
            o.what += "  [decided on the helper-expanded view: the anchor construct lives in a private helper]"
        return inl
    # a report of the first view stands when the second view reports the same thing: same rule and either the same
    # construct (names of expanded locals lose their suffix) or the same opening of the message; a report that the second
    # view does not repeat was about a construct that lives in a helper -> not a violation
    import re as _re

    def _sig(rep):
        return (rep.rule, _re.sub(r"__inl\d+", "", rep.construct or "")), (rep.rule, (rep.msg or "")[:60])

    confirmed = set()
    for rep in new_inl:
        confirmed.update(_sig(rep))
    for o in raw:
        moved = [rep for rep in o.reports if (pid, rep.rule, rep.key) not in known and not (set(_sig(rep)) & confirmed)]
        o.reports = [rep for rep in o.reports if rep not in moved]
        for rep in moved:
            o.undecide(rep.file, rep.func, rep.construct, "not confirmed on the helper-expanded view (the construct lives in a private helper): " + rep.msg[:160])
    return raw


def run_property(pid, spec, tier="quick", seed=0, out=sys.stdout):
    """spec: dict(title, explanation, rules=[(fn, tiers)], assumptions, trusted_base)"""
    t0 = time.time()
    os.makedirs(EVIDENCE_DIR, exist_ok=True)
    evpath = os.path.join(EVIDENCE_DIR, "%s.json" % pid)
    try:
        repo = get_repo()
        outs = []
        known, _fixed = load_known()
        for fn, tiers in spec["rules"]:
            if tier not in tiers:
                continue
            outs.extend(two_views(repo, fn, tier, pid, known))
    except AnalysisError as e:
        print("ANALYSIS-ERROR property=%s %s" % (pid, e), file=out)
        return 2
    except Exception:
        traceback.print_exc()
        print("ANALYSIS-ERROR property=%s internal error in checker (traceback above)" % pid, file=out)
        return 2

    violations = []
    knownhits = []
    seen = set()
    for r in outs:
        for rep in r.reports:
            k = (pid, rep.rule, rep.key)
            if k in seen:
                continue
            seen.add(k)
            if k in known:
                knownhits.append((rep, known[k]))
            else:
                violations.append(rep)
    stale = [k for k in known if k[0] == pid and k not in seen]

    for rep, kf in knownhits:
        print("KNOWN-FINDING: property=%s %s %s -- %s" % (pid, rep.rule, rep.key, kf["what"]), file=out)
    for k in stale:
        print("STALE-FINDING: property=%s %s %s (listed but no longer derived)" % k, file=out)

    rc = 0
    replay_dir = os.path.join(EVIDENCE_DIR, "replay")
    if violations:
        os.makedirs(replay_dir, exist_ok=True)
        for n, rep in enumerate(violations):
            rp = os.path.join(replay_dir, "%s-%d.json" % (pid, n))
            with open(rp, "w") as fh:
                json.dump({"property": pid, "tier": tier, **rep.asdict()}, fh, indent=1)
            print("REPORT %s" % rep, file=out)
            print("VIOLATION property=%s replay=%s" % (pid, rp), file=out)
        rc = 1

    instances = sum(r.instances for r in outs)
    nontriv = sum(len(r.nontrivial) for r in outs)
    samples = []
    for r in outs:
        for s in r.samples[:3]:
            samples.append({"rule": r.rule, "obligation": s})
    nrep = len(violations) + len(knownhits)
    cov = {
        "explanation": spec["explanation"],
        "rule": " || ".join("%s: %s" % (r.rule, r.what) for r in outs),
        "evaluations": max(instances, 1),
        "distinct_nontrivial": nontriv,
        "obligations": instances,
        "discharged": instances - nrep if instances >= nrep else 0,
        "samples": samples or [{"note": "no instance"}],
        "checker_cmd": "/venv/bin/python -m vstat check %s --tier %s" % (pid, tier),
        "trusted_base": spec.get("trusted_base", []) + ["CPython ast module (parser of the analysed tree)"],
        "exhaustive": bool(spec.get("exhaustive", False)),
        "per_rule": {
            r.rule: {
                "instances": r.instances,
                "distinct_nontrivial": len(r.nontrivial),
                "reports": len(r.reports),
                "undecided": len(r.undecided),
                **r.stats,
            }
            for r in outs
        },
        "undecided": [u for r in outs for u in r.undecided][:60],
        "undecided_total": sum(len(r.undecided) for r in outs),
        "known_findings": [rep.key for rep, _ in knownhits],
        "new_violations": [rep.asdict() for rep in violations][:50],
        "repo_root": REPO,
        "repo_digest": repo.digest(),
        "files_parsed": len(repo.modules),
    }
    if tier == "thorough" and not os.environ.get("VERIF_NO_SELFTEST"):
        # sensitivity of this property's rules on *this* tree: every catalogue mutant of the property is applied to a scratch
        # copy of the analysed tree (removed afterwards) and the quick check must fire / stay silent as recorded.  Informational:
        # the verdict on the tree itself (rc) is not changed by it; a mutant whose anchor text is gone is skipped.
        try:
            from concurrent.futures import ThreadPoolExecutor
            from .mutants import MUTANTS
            from .selftest import _run_one

            muts = [m for m in MUTANTS if m[1] == pid and m[3] is not None]
            res = []
            with ThreadPoolExecutor(max_workers=int(os.environ.get("VERIF_JOBS", "16"))) as ex:
                res = list(ex.map(_run_one, muts))
            okc = sum(1 for r in res if r[2] == "ok")
            skipped = [r[0] for r in res if r[2] == "SELFTEST-ERROR"]
            failed = [r[0] for r in res if r[2] == "FAIL"]
            cov["self_test"] = {
                "what": "catalogue mutants of this property applied to scratch copies of the analysed tree; breaking mutants must be reported (naming the instance), benign twins must stay silent",
                "mutants": len(muts),
                "as_expected": okc,
                "anchor_text_gone": skipped,
                "not_as_expected": failed if rc == 0 else [],
                "note": "" if rc == 0 else "the analysed tree itself violates the property: twin verdicts are not meaningful and are not listed",
            }
            print("  self-test: %d mutants of %s on scratch copies, %d as expected%s%s" % (len(muts), pid, okc, (", skipped %s" % skipped) if skipped else "", (", NOT as expected %s" % failed) if failed and rc == 0 else ""), file=out)
        except Exception as e:  # never let the informational part change the verdict
            cov["self_test"] = {"error": repr(e)}
    ev = {
        "property_id": pid,
        "tier": tier,
        "seed": int(seed),
        "level": "other",
        "coverage": cov,
        "assumptions": spec.get("assumptions", []),
        "wall_s": round(time.time() - t0, 3),
        "violations": len(violations),
    }
    with open(evpath, "w") as fh:
        json.dump(ev, fh, indent=1, sort_keys=True)
    print(
        "%s tier=%s rules=%d obligations=%d nontrivial=%d known=%d undecided=%d violations=%d wall=%.2fs"
        % (pid, tier, len(outs), instances, nontriv, len(knownhits), cov["undecided_total"], len(violations), ev["wall_s"]),
        file=out,
    )
    for r in outs:
        print("  %-12s instances=%-5d reports=%-3d undecided=%-3d %s" % (r.rule, r.instances, len(r.reports), len(r.undecided), r.stats or ""), file=out)
    return rc


def scoped(rule, prefixes, label):
    """the same rule, restricted to reports / undecided sites / obligations whose file lies under one of the prefixes"""

    def run(repo, tier):
        r = rule(repo, tier)
        outs = [r] if isinstance(r, RuleOut) else list(r)
        res = []
        for o in outs:
            n = RuleOut(o.rule, o.what + "  [restricted to %s]" % label)
            n.reports = [x for x in o.reports if x.file.startswith(prefixes)]
            n.undecided = [u for u in o.undecided if str(u.get("file", "")).startswith(prefixes)]
            n.nontrivial = {k for k in o.nontrivial if any(p in str(k) for p in prefixes)}
            n.instances = max(len(n.nontrivial), 1)
            n.samples = [s for s in o.samples if any(p in str(s) for p in prefixes)][:6] or o.samples[:1]
            n.stats = dict(o.stats)
            res.append(n)
        return res[0] if len(res) == 1 else res

    run.__name__ = getattr(rule, "__name__", "rule") + "_" + label
    return run
