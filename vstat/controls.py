"""Positive controls: tiny snippets on which a rule MUST fire on every run."""
import sys


def run_controls():
    from .ispecmodel import SpecModel

    bad = 0
    # R-FMT controls
    for fmt, must in [
        ("32<[ ~imm(12) rs1(5) 000 rd(5) 0010011 ]", False),
        ("32<[ ~imm(11) rs1(5) 000 rd(5) 0010011 ]", True),
        ("24<[ ~imm(12) rs1(5) 000 rd(5) 0010011 ]", True),
        ("*>[ {0f} ~data(*) x(3) ]", True),
        ("16<[ a(4) a(4) {20} ]", True),
        ("*<[ ~data(*) 0100 Sreg(4) Ad(1) .BW(1) As(2) Dreg(4) ]", False),
        ("32[ .cond(4) 0111110 msb(5) Rd(4) lsb(5) 001 1111=Rn(4) ]", False),
    ]:
        errs = SpecModel(fmt).wellformed()
        if bool(errs) != must:
            print("CONTROL-FAIL R-FMT %r expected %s got %s" % (fmt, must, errs))
            bad += 1
    # R-DUPKEY control: a table literal with a repeated key must be seen
    import ast as _ast
    d = _ast.parse("T = {0b0110: 'fbu', 0b0110: 'fbg', 1: 'x'}").body[0].value
    keys = [k.value for k in d.keys]
    if len(keys) == len(set(keys)):
        print("CONTROL-FAIL R-DUPKEY"); bad += 1
    try:
        from .controls_extra import run_extra

        bad += run_extra()
    except ImportError:
        pass
    print("controls: %s" % ("ok" if not bad else "%d FAILED" % bad))
    return 2 if bad else 0
