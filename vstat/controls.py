"""Positive controls: tiny snippets on which a rule MUST fire on every run."""
import sys


CONTROL_MUTANTS = [
    "signview-tst", "fmt-width-short", "pair-order-far", "auxflag-sbb-drop-c", "boundary-contains-le", "ownmerge-cond-assume-c10",
    "reset-drop-final", "span-top-width", "deepcopy-share-raw", "cksum-hex-256", "segimg-filesz-return", "psize-pack-tail",
    "boundidx-sh2-fcnvsd", "addvertex-fastpath", "merge-early-return", "raise-open-narrow", "index-split-or", "c07-pair-order-far",
]


def run_controls():
    from .ispecmodel import SpecModel

    bad = 0
    # R-FMT controls
    for fmt, must in [
        ("32<[ ~imm(12) rs1(5) 000 rd(5) 0010011 ]", False),
        ("32<[ ~imm(11) rs1(5) 000 rd(5) 0010011 ]", True),
        ("24<[ ~imm(12) rs1(5) 000 rd(5) 0010011 ]", True),
        ("*>[ {0f} ~data(*) x(3) ]", True),
        ("16<[ a(4) a(4) {20} ]", True),
        ("*<[ ~data(*) 0100 Sreg(4) Ad(1) .BW(1) As(2) Dreg(4) ]", False),
        ("32[ .cond(4) 0111110 msb(5) Rd(4) lsb(5) 001 1111=Rn(4) ]", False),
    ]:
        errs = SpecModel(fmt).wellformed()
        if bool(errs) != must:
            print("CONTROL-FAIL R-FMT %r expected %s got %s" % (fmt, must, errs))
            bad += 1
    # R-DUPKEY control: a table literal with a repeated key must be seen
    import ast as _ast
    d = _ast.parse("T = {0b0110: 'fbu', 0b0110: 'fbg', 1: 'x'}").body[0].value
    keys = [k.value for k in d.keys]
    if len(keys) == len(set(keys)):
        print("CONTROL-FAIL R-DUPKEY"); bad += 1
    # one breaking mutant per property, applied to a scratch copy of the tree: a rule whose expected report count is zero
    # must still be able to fire today (positive control, ~15 s with 16 jobs)
    try:
        from concurrent.futures import ThreadPoolExecutor
        from .mutants import MUTANTS
        from .selftest import _run_one

        muts = [m for m in MUTANTS if m[0] in CONTROL_MUTANTS]
        if len(muts) != len(CONTROL_MUTANTS):
            print("CONTROL-FAIL control mutants missing from the catalogue: %s" % sorted(set(CONTROL_MUTANTS) - {m[0] for m in muts}))
            bad += 1
        import os as _os

        with ThreadPoolExecutor(max_workers=int(_os.environ.get("VERIF_JOBS", "16"))) as ex:
            for name, pid, status, detail in ex.map(_run_one, muts):
                if status != "ok":
                    print("CONTROL-FAIL %s %s %s %s" % (pid, name, status, detail[:300]))
                    bad += 1
        print("controls: %d breaking mutants on scratch copies" % len(muts))
    except Exception as e:
        print("CONTROL-FAIL mutant controls could not run: %r" % (e,))
        bad += 1
    try:
        from .controls_extra import run_extra

        bad += run_extra()
    except ImportError:
        pass
    print("controls: %s" % ("ok" if not bad else "%d FAILED" % bad))
    return 2 if bad else 0
