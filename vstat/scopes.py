"""E2: scope resolution of names (symtable-based), module attributes, private attributes."""
import ast
import warnings

from .index import BUILTINS, AnalysisError

class NameUse:
    __slots__ = ("func", "name", "nodes", "guarded", "bare_stmt", "scope_kind")

    def __init__(self, func, name, nodes, guarded, bare_stmt, scope_kind):
        self.func = func  # FuncInfo or None (module / class level)
        self.name = name
        self.nodes = nodes
        self.guarded = guarded  # inside try/except NameError|Exception|bare
        self.bare_stmt = bare_stmt  # every use is a bare expression statement (`NEVER`)
        self.scope_kind = scope_kind


def _catches_nameerror(tr):
    for h in tr.handlers:
        if h.type is None:
            return True
        names = []
        t = h.type
        for e in t.elts if isinstance(t, ast.Tuple) else [t]:
            if isinstance(e, ast.Name):
                names.append(e.id)
            elif isinstance(e, ast.Attribute):
                names.append(e.attr)
        if set(names) & {"NameError", "Exception", "BaseException"}:
            return True
    return False


_SCOPES = (ast.FunctionDef, ast.AsyncFunctionDef, ast.ClassDef, ast.Lambda, ast.ListComp, ast.SetComp, ast.DictComp, ast.GeneratorExp)


class _Scope:
    def __init__(self, kind, node, parent):
        self.kind = kind  # module | function | class | comp
        self.node = node
        self.parent = parent
        self.locals = set()
        self.globals = set()
        self.nonlocals = set()
        self.loads = []  # (Name node)
        self.children = []


def _build_scopes(tree):
    """own scope tree: where each Name is bound / loaded (flow-insensitive)."""
    root = _Scope("module", tree, None)

    def bind_target(sc, t):
        # comprehension-scope walrus binds in the nearest non-comp scope
        if isinstance(t, ast.Name):
            sc.locals.add(t.id)
        elif isinstance(t, (ast.Tuple, ast.List)):
            for e in t.elts:
                bind_target(sc, e)
        elif isinstance(t, ast.Starred):
            bind_target(sc, t.value)

    def visit(n, sc):
        if isinstance(n, (ast.FunctionDef, ast.AsyncFunctionDef)):
            sc.locals.add(n.name)
            for d in n.decorator_list:
                visit(d, sc)
            for d in n.args.defaults + [x for x in n.args.kw_defaults if x is not None]:
                visit(d, sc)
            ch = _Scope("function", n, sc)
            sc.children.append(ch)
            a = n.args
            for x in a.posonlyargs + a.args + a.kwonlyargs:
                ch.locals.add(x.arg)
            if a.vararg:
                ch.locals.add(a.vararg.arg)
            if a.kwarg:
                ch.locals.add(a.kwarg.arg)
            for s in n.body:
                visit(s, ch)
            return
        if isinstance(n, ast.Lambda):
            for d in n.args.defaults + [x for x in n.args.kw_defaults if x is not None]:
                visit(d, sc)
            ch = _Scope("function", n, sc)
            sc.children.append(ch)
            a = n.args
            for x in a.posonlyargs + a.args + a.kwonlyargs:
                ch.locals.add(x.arg)
            if a.vararg:
                ch.locals.add(a.vararg.arg)
            if a.kwarg:
                ch.locals.add(a.kwarg.arg)
            visit(n.body, ch)
            return
        if isinstance(n, ast.ClassDef):
            sc.locals.add(n.name)
            for d in n.decorator_list + n.bases + [k.value for k in n.keywords]:
                visit(d, sc)
            ch = _Scope("class", n, sc)
            sc.children.append(ch)
            for s in n.body:
                visit(s, ch)
            return
        if isinstance(n, (ast.ListComp, ast.SetComp, ast.DictComp, ast.GeneratorExp)):
            visit(n.generators[0].iter, sc)
            ch = _Scope("comp", n, sc)
            sc.children.append(ch)
            for k, g in enumerate(n.generators):
                bind_target(ch, g.target)
                visit(g.target, ch)
                if k > 0:
                    visit(g.iter, ch)
                for i in g.ifs:
                    visit(i, ch)
            if isinstance(n, ast.DictComp):
                visit(n.key, ch)
                visit(n.value, ch)
            else:
                visit(n.elt, ch)
            return
        if isinstance(n, ast.Name):
            if isinstance(n.ctx, ast.Store):
                sc.locals.add(n.id)
            elif isinstance(n.ctx, ast.Del):
                sc.locals.add(n.id)
            else:
                sc.loads.append(n)
            return
        if isinstance(n, ast.NamedExpr):
            t = sc
            while t.kind == "comp":
                t = t.parent
            t.locals.add(n.target.id)
            visit(n.value, sc)
            return
        if isinstance(n, ast.Global):
            sc.globals.update(n.names)
            return
        if isinstance(n, ast.Nonlocal):
            sc.nonlocals.update(n.names)
            return
        if isinstance(n, (ast.Import, ast.ImportFrom)):
            for al in n.names:
                if al.name != "*":
                    sc.locals.add((al.asname or al.name).split(".")[0])
            return
        if isinstance(n, ast.ExceptHandler):
            if n.name:
                sc.locals.add(n.name)
        if isinstance(n, (ast.MatchAs, ast.MatchStar)) and getattr(n, "name", None):
            sc.locals.add(n.name)
        if isinstance(n, ast.MatchMapping) and n.rest:
            sc.locals.add(n.rest)
        for c in ast.iter_child_nodes(n):
            visit(c, sc)

    for s in tree.body:
        visit(s, root)
    return root


def unresolved_in_module(repo, m):
    """list of NameUse for name loads that resolve in no scope (flow-insensitive)."""
    ns = repo.namespace(m.name)
    root = _build_scopes(m.tree)
    parents = {}
    for p in ast.walk(m.tree):
        for c in ast.iter_child_nodes(p):
            parents[c] = p

    def guarded(n):
        c = n
        while c in parents:
            p = parents[c]
            if isinstance(p, ast.Try) and c in p.body and _catches_nameerror(p):
                return True
            c = p
        return False

    def is_bare(n):
        return isinstance(parents.get(n), ast.Expr)

    fnode2info = {id(f.node): f for f in m.functions.values()}

    def owner_func(sc):
        while sc is not None:
            if sc.kind == "function" and isinstance(sc.node, (ast.FunctionDef, ast.AsyncFunctionDef)):
                return fnode2info.get(id(sc.node))
            sc = sc.parent
        return None

    results = []

    def resolves(name, sc):
        first = True
        s = sc
        while s is not None:
            if s.kind == "module":
                return name in s.locals or name in ns or name in BUILTINS
            if name in s.globals:
                return name in root.locals or name in ns or name in BUILTINS
            if s.kind == "class" and not first:
                s = s.parent
                continue
            if name in s.locals and name not in s.nonlocals:
                return True
            first = False if s.kind != "comp" or True else first
            s = s.parent
        return False

    def walk(sc):
        by = {}
        for n in sc.loads:
            by.setdefault(n.id, []).append(n)
        for name, nodes in by.items():
            if not resolves(name, sc):
                results.append(NameUse(owner_func(sc), name, nodes, all(guarded(x) for x in nodes), all(is_bare(x) for x in nodes), sc.kind))
        for c in sc.children:
            walk(c)

    walk(root)
    # merge per (function, name)
    merged = {}
    for u in results:
        k = (id(u.func), u.name)
        if k in merged:
            o = merged[k]
            o.nodes += u.nodes
            o.guarded = o.guarded and u.guarded
            o.bare_stmt = o.bare_stmt and u.bare_stmt
        else:
            merged[k] = u
    return list(merged.values())


def module_attr_stores(repo):
    """names dynamically bound on amoco modules from outside: `M.a = ...` / setattr(M,'a',..)"""
    dyn = {}
    for m in repo.modules.values():
        for n in ast.walk(m.tree):
            if isinstance(n, ast.Attribute) and isinstance(n.ctx, ast.Store) and isinstance(n.value, ast.Name):
                r = repo.lookup(m.name, n.value.id)
                if r and r[1][0] == "module":
                    dyn.setdefault(r[1][1], set()).add(n.attr)
    return dyn


def local_bindings(fnode):
    """names bound anywhere inside a function (params, stores, imports...)."""
    b = set()
    a = fnode.args
    for x in a.posonlyargs + a.args + a.kwonlyargs:
        b.add(x.arg)
    if a.vararg:
        b.add(a.vararg.arg)
    if a.kwarg:
        b.add(a.kwarg.arg)
    for n in ast.walk(fnode):
        if isinstance(n, ast.Name) and isinstance(n.ctx, (ast.Store, ast.Del)):
            b.add(n.id)
        elif isinstance(n, (ast.Import, ast.ImportFrom)):
            for al in n.names:
                b.add((al.asname or al.name).split(".")[0])
        elif isinstance(n, (ast.FunctionDef, ast.ClassDef)) and n is not fnode:
            b.add(n.name)
        elif isinstance(n, ast.ExceptHandler) and n.name:
            b.add(n.name)
    return b
