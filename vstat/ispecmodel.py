"""E3: model of every @ispec / @ispec_ia32 decorator, with an independent
interpreter of the format language written from the `ispec` docstring.

Format:  LEN ('<'|'>')? '[' directive* ']' ('+'|'&')?
directive:  '-' | '0' | '1' | '{hh}' | [.~#=]? SYMBOL ( '(' (int|'*') ')' )?
"""
import ast
import re

from .index import AnalysisError, norm

_SYM = re.compile(r"[A-Za-z_][A-Za-z0-9_]*")
_INT = re.compile(r"[1-9][0-9]*|[01]")


class FormatError(Exception):
    pass


class Directive:
    __slots__ = ("kind", "opt", "sym", "width", "tpos", "bits", "value")

    # kind: 'fix' (0/1 bits or {hh}), 'skip' ('-'), 'field'
    def __init__(self, kind, width, opt="", sym=None, value=None):
        self.kind = kind
        self.opt = opt
        self.sym = sym
        self.width = width  # int or '*'
        self.tpos = None  # textual start position (bits consumed before it)
        self.bits = None  # (lo, hi) bit indices, hi exclusive; hi None for '*'
        self.value = value  # for fix: string of bits in textual order

    def __repr__(self):
        if self.kind == "field":
            return "%s%s(%s)@%s" % (self.opt, self.sym, self.width, self.bits)
        return "%s:%s@%s" % (self.kind, self.value, self.bits)


class SpecModel:
    """interpretation of one format string."""

    def __init__(self, fmt):
        self.format = fmt
        self.errors = []
        self.parse(fmt)
        self.layout()

    # ------------------------------------------------------------ parsing
    def parse(self, s):
        i = 0
        n = len(s)

        def ws(i):
            while i < n and s[i].isspace():
                i += 1
            return i

        i = ws(i)
        if i < n and s[i] == "*":
            self.len = "*"
            i += 1
        else:
            m = _INT.match(s, i)
            if not m:
                raise FormatError("missing LEN")
            self.len = int(m.group())
            i = m.end()
        i = ws(i)
        self.dir = "<"
        if i < n and s[i] in "<>":
            self.dir = s[i]
            i += 1
        i = ws(i)
        if i >= n or s[i] != "[":
            raise FormatError("missing '['")
        i += 1
        ds = []
        while True:
            i = ws(i)
            if i >= n:
                raise FormatError("missing ']'")
            c = s[i]
            if c == "]":
                i += 1
                break
            if c in "01":
                ds.append(Directive("fix", 1, value=c))
                i += 1
            elif c == "-":
                ds.append(Directive("skip", 1))
                i += 1
            elif c == "{":
                m = re.compile(r"\{([0-9a-fA-F]{2})\}").match(s, i)
                if not m:
                    raise FormatError("bad {byte} at %d" % i)
                # {hh}: 8 fixed bits. '8>[{2f}]' == '8>[ 1111 0100 ]' == '8<[ 0010 1111 ]'
                ds.append(Directive("fix", 8, value="{%s}" % m.group(1).lower()))
                i = m.end()
            else:
                opt = ""
                if c in ".~#=":
                    opt = c
                    i = ws(i + 1)
                m = _SYM.match(s, i)
                if not m:
                    raise FormatError("bad directive at %d: %r" % (i, s[i : i + 8]))
                sym = m.group()
                i = ws(m.end())
                width = 1
                if i < n and s[i] == "(":
                    j = ws(i + 1)
                    if j < n and s[j] == "*":
                        width = "*"
                        j += 1
                    else:
                        m2 = _INT.match(s, j)
                        if not m2:
                            raise FormatError("bad location for %s" % sym)
                        width = int(m2.group())
                        j = m2.end()
                    j = ws(j)
                    if j >= n or s[j] != ")":
                        raise FormatError("unclosed location for %s" % sym)
                    i = j + 1
                ds.append(Directive("field", width, opt=opt, sym=sym))
        if not ds:
            raise FormatError("empty FORMAT")
        i = ws(i)
        self.pfx = False
        self.xdata = False
        if i < n and s[i] == "+":
            self.pfx = True
            i = ws(i + 1)
        if i < n and s[i] == "&":
            self.xdata = True
            i = ws(i + 1)
        if i != n:
            raise FormatError("trailing garbage %r" % s[i:])
        self.directives = ds

    # ------------------------------------------------------------- layout
    def layout(self):
        """assign textual positions then bit indices; compute fixed length.

        The (*) directive takes "all remaining bits": it must sit at the most
        significant end, i.e. textually last for '>' and textually first for '<'.
        """
        ds = self.directives
        stars = [k for k, d in enumerate(ds) if d.width == "*"]
        self.star = stars[0] if stars else None
        body = list(ds)
        if len(stars) > 1:
            self.errors.append("more than one (*) directive")
        if stars:
            k = stars[0]
            ok = (self.dir == ">" and k == len(ds) - 1) or (self.dir == "<" and k == 0)
            if not ok:
                self.errors.append("(*) directive %s is not at the most significant end of the format" % ds[k].sym)
            if ds[k].opt == "=":
                self.errors.append("'=' directive %s with (*) length" % ds[k].sym)
            body = [d for j, d in enumerate(ds) if j not in stars]
        c = 0
        for d in body:
            if d.kind == "field" and d.opt == "=":
                d.tpos = c - d.width
                if d.tpos < 0:
                    self.errors.append("'=' directive %s(%d) reaches before the start of the format" % (d.sym, d.width))
                continue
            d.tpos = c
            c += d.width
        self.fixedbits = c  # bits consumed by fixed-width directives
        self.size = c if self.len == "*" else self.len
        for d in body:
            if self.dir == ">":
                d.bits = (d.tpos, d.tpos + d.width)
            else:
                base = self.fixedbits if stars else self.size
                d.bits = (base - d.tpos - d.width, base - d.tpos)
        for k in stars:
            ds[k].tpos = c
            ds[k].bits = (self.fixedbits, None if self.len == "*" else self.len)

    # ------------------------------------------------------------ queries
    def fields(self):
        return [d for d in self.directives if d.kind == "field"]

    def fargs(self):
        return [d.sym for d in self.fields() if d.opt != "."]

    def iattrs(self):
        return [d.sym for d in self.fields() if d.opt == "."]

    def fix_mask(self):
        """(fix, mask) integers over the fixed part (bit 0 = LSB)."""
        fix = mask = 0
        for d in self.directives:
            if d.kind != "fix" or d.bits is None:
                continue
            lo, hi = d.bits
            if lo < 0:
                continue
            if d.value.startswith("{"):
                v = int(d.value[1:3], 16)
                # {hh} is a plain byte value whatever the direction
                fix |= v << lo
                mask |= 0xFF << lo
            else:
                fix |= int(d.value) << lo
                mask |= 1 << lo
        return fix, mask

    def wellformed(self):
        """list of violations of the documented language (empty = well formed)."""
        errs = list(self.errors)
        if self.len != "*":
            if self.len < 8 or self.len % 8:
                errs.append("LEN %s is not a positive multiple of 8" % self.len)
            if self.star is None:
                if self.fixedbits != self.len:
                    errs.append("directive widths sum to %d, LEN is %d" % (self.fixedbits, self.len))
            else:
                if self.fixedbits > self.len:
                    errs.append("directive widths %d exceed LEN %d" % (self.fixedbits, self.len))
        else:
            if self.fixedbits < 8 or self.fixedbits % 8:
                errs.append("fixed part of '*' spec is %d bits (not a positive multiple of 8)" % self.fixedbits)
        seen = {}
        for d in self.fields():
            dest = "attr" if d.opt == "." else "arg"
            if (dest, d.sym) in seen:
                errs.append("symbol %s declared twice as %s" % (d.sym, dest))
            seen[(dest, d.sym)] = 1
            if d.width != "*" and d.width == 0:
                errs.append("zero-width directive %s" % d.sym)
        fx, mk = self.fix_mask()
        if mk == 0:
            errs.append("no fixed bit (spec is silently not registered)")
        return errs


class SpecDecl:
    """one @ispec decorator occurrence"""

    __slots__ = ("func", "deco", "cls", "raw", "format", "model", "kwargs", "kwnodes", "err", "line", "loopvar")

    def __init__(self, func, deco, cls, raw, fmt, kwargs, kwnodes, loopvar=None):
        self.func = func
        self.deco = deco
        self.cls = cls  # 'ispec' | 'ispec_ia32' | other
        self.raw = raw
        self.format = fmt
        self.kwargs = kwargs
        self.kwnodes = kwnodes
        self.line = deco.lineno
        self.loopvar = loopvar
        self.err = None
        try:
            self.model = SpecModel(fmt)
        except FormatError as e:
            self.model = None
            self.err = str(e)

    def delivered(self):
        names = set(self.model.fargs()) if self.model else set()
        for k in self.kwargs:
            if k.startswith("_") and k != "__obj":
                names.add(k)
        return names

    def attrs(self):
        names = set(self.model.iattrs()) if self.model else set()
        for k in self.kwargs:
            if not k.startswith("_"):
                names.add(k)
        return names

    @property
    def mnemonic(self):
        n = self.kwnodes.get("mnemonic")
        if isinstance(n, ast.Constant) and isinstance(n.value, str):
            return n.value
        return None


def _fold_str(node, env):
    """constant-fold a format expression: literal, "..." % name/tuple, f-string of env names."""
    if isinstance(node, ast.Constant) and isinstance(node.value, str):
        return node.value
    if isinstance(node, ast.BinOp) and isinstance(node.op, ast.Mod):
        l = _fold_str(node.left, env)
        if l is None:
            return None
        r = _fold_val(node.right, env)
        if r is None:
            return None
        try:
            return l % r
        except Exception:
            return None
    if isinstance(node, ast.BinOp) and isinstance(node.op, ast.Add):
        l = _fold_str(node.left, env)
        r = _fold_str(node.right, env)
        if l is None or r is None:
            return None
        return l + r
    if isinstance(node, ast.Name) and isinstance(env.get(node.id), str):
        return env[node.id]
    return None


def _fold_val(node, env):
    if isinstance(node, ast.Constant):
        return node.value
    if isinstance(node, ast.Name) and node.id in env:
        return env[node.id]
    if isinstance(node, ast.Tuple):
        vs = [_fold_val(e, env) for e in node.elts]
        if any(v is None for v in vs):
            return None
        return tuple(vs)
    if isinstance(node, ast.BinOp):
        l = _fold_val(node.left, env)
        r = _fold_val(node.right, env)
        if isinstance(l, int) and isinstance(r, int):
            try:
                if isinstance(node.op, ast.Add):
                    return l + r
                if isinstance(node.op, ast.Sub):
                    return l - r
                if isinstance(node.op, ast.Mult):
                    return l * r
                if isinstance(node.op, ast.LShift):
                    return l << r
            except Exception:
                return None
    return None


def _macro_from_constants(m, init):
    """Second reader for the ModR/M macro: the replacement texts are looked for among the string constants of __init__,
    of the module-level functions it reaches by name, and of the module-level string assignments those name.  The /digit
    template is the one constant with 'Mod(' and one '%s'; the /r text is either a constant with 'Mod(' and no '%s', or the
    template filled with the single 'NAME(3)'-shaped constant.  Anything ambiguous gives (None, None)."""
    import re as _re
    funcs = {n.name: n for n in m.tree.body if isinstance(n, ast.FunctionDef)}
    mconst = {}
    for n in m.tree.body:
        if isinstance(n, ast.Assign) and len(n.targets) == 1 and isinstance(n.targets[0], ast.Name) \
                and isinstance(n.value, ast.Constant) and isinstance(n.value.value, str):
            mconst[n.targets[0].id] = n.value.value
    meths = {}
    for c in m.tree.body:
        if isinstance(c, ast.ClassDef) and c.name == "ispec_ia32":
            meths = {x.name: x for x in c.body if isinstance(x, ast.FunctionDef) and x.name != "__init__"}
    seen, todo, consts = set(), [init], []
    while todo:
        fn = todo.pop()
        for n in ast.walk(fn):
            if isinstance(n, ast.Constant) and isinstance(n.value, str):
                consts.append(n.value)
            elif isinstance(n, ast.Name) and n.id in mconst:
                consts.append(mconst[n.id])
            elif isinstance(n, ast.JoinedStr):
                consts.append("".join(v.value if isinstance(v, ast.Constant) else "%s" for v in n.values))
            if isinstance(n, ast.Call) and isinstance(n.func, ast.Name) and n.func.id in funcs and n.func.id not in seen:
                seen.add(n.func.id)
                todo.append(funcs[n.func.id])
            if isinstance(n, ast.Call) and isinstance(n.func, ast.Attribute) and isinstance(n.func.value, ast.Name) and n.func.value.id in ("self", "cls", "ispec_ia32") \
                    and n.func.attr in meths and ("." + n.func.attr) not in seen:
                seen.add("." + n.func.attr)
                todo.append(meths[n.func.attr])
    tmpl = sorted(set(c for c in consts if "Mod(" in c and c.count("%s") == 1))
    full = sorted(set(c for c in consts if "Mod(" in c and "%" not in c))
    regs = sorted(set(c for c in consts if _re.fullmatch(r"[A-Za-z_]+\(3\)", c)))
    if len(tmpl) != 1:
        return None, None
    if len(full) == 1:
        return full[0], tmpl[0]
    if not full and len(regs) == 1:
        return tmpl[0] % regs[0], tmpl[0]
    return None, None


def ia32_macro(repo):
    """Re-read the '/r' and '/digit' replacement texts from ispec_ia32.__init__'s AST.

    returns dict modname -> (r_text, digit_template) ; digit_template has one %s for the 3 bits.
    """
    out = {}
    for modname in ("amoco.arch.x86.utils", "amoco.arch.x64.utils"):
        m = repo.modules.get(modname)
        if m is None or "ispec_ia32" not in m.classes:
            raise AnalysisError("anchor vanished: %s.ispec_ia32" % modname)
        init = m.classes["ispec_ia32"].methods.get("__init__")
        if init is None:
            raise AnalysisError("anchor vanished: %s.ispec_ia32.__init__" % modname)
        rtxt = dtxt = None
        for n in ast.walk(init.node):
            if isinstance(n, ast.Call) and isinstance(n.func, ast.Attribute) and n.func.attr == "replace" and len(n.args) == 2:
                a0, a1 = n.args
                if isinstance(a0, ast.Constant) and a0.value == "/r" and isinstance(a1, ast.Constant):
                    rtxt = a1.value
                elif isinstance(a1, ast.BinOp) and isinstance(a1.op, ast.Mod) and isinstance(a1.left, ast.Constant):
                    dtxt = a1.left.value
        if rtxt is None or dtxt is None:
            rtxt, dtxt = _macro_from_constants(m, init.node)
        if rtxt is None or dtxt is None:
            raise AnalysisError("cannot read the /r //digit macro text from %s.ispec_ia32.__init__" % modname)
        out[modname] = (rtxt, dtxt)
    return out


def expand_ia32(fmt, macro):
    rtxt, dtxt = macro
    n = fmt.find("/")
    if 0 < n < len(fmt) - 1:
        c = fmt[n + 1]
        if c == "r":
            return fmt.replace("/r", rtxt)
        if c in "01234567":
            v = int(c, 8)
            # crysp Bits(v,3) prints LSB first
            bits = "".join(str((v >> k) & 1) for k in range(3))
            return fmt.replace("/%c" % c, dtxt % bits)
        return None
    return fmt


def _deco_name(d):
    f = d.func if isinstance(d, ast.Call) else d
    if isinstance(f, ast.Name):
        return f.id
    if isinstance(f, ast.Attribute):
        return f.attr
    return None


def collect_specs(repo):
    """all SpecDecl of amoco/arch/**, plus the list of decorators whose format could not be folded."""
    macro = ia32_macro(repo)
    decls = []
    unfolded = []
    for m in repo.modules.values():
        if not m.name.startswith("amoco.arch."):
            continue
        # module-level `for i in range(a,b):` loops containing decorated defs
        loops = {}
        for s in m.tree.body:
            if isinstance(s, ast.For) and isinstance(s.target, ast.Name):
                it = s.iter
                rng = None
                if isinstance(it, ast.Call) and isinstance(it.func, ast.Name) and it.func.id == "range":
                    vals = [_fold_val(a, {}) for a in it.args]
                    if all(isinstance(v, int) for v in vals):
                        rng = list(range(*vals))
                for n in ast.walk(s):
                    if isinstance(n, (ast.FunctionDef,)):
                        loops[id(n)] = (s.target.id, rng)
        for f in m.functions.values():
            for d in f.node.decorator_list:
                if not isinstance(d, ast.Call):
                    continue
                name = _deco_name(d)
                if name not in ("ispec", "ispec_ia32"):
                    continue
                if not d.args:
                    unfolded.append((f, d, "no positional format"))
                    continue
                kwnodes = {k.arg: k.value for k in d.keywords if k.arg}
                kwargs = list(kwnodes)
                envs = [({}, None)]
                if id(f.node) in loops:
                    var, rng = loops[id(f.node)]
                    if rng is None:
                        unfolded.append((f, d, "loop range not constant"))
                        continue
                    envs = [({var: v}, v) for v in rng]
                for env, lv in envs:
                    raw = _fold_str(d.args[0], env)
                    if raw is None:
                        unfolded.append((f, d, "format is not a foldable literal"))
                        break
                    fmt = raw
                    if name == "ispec_ia32":
                        # which macro: the ispec_ia32 class visible in this module
                        r = repo.lookup(m.name, "ispec_ia32")
                        mm = r[0].name if r and r[0] is not None else None
                        if mm not in macro:
                            unfolded.append((f, d, "ispec_ia32 class not resolved"))
                            break
                        fmt = expand_ia32(raw, macro[mm])
                        if fmt is None:
                            unfolded.append((f, d, "unknown /x macro"))
                            break
                    decls.append(SpecDecl(f, d, name, raw, fmt, kwargs, kwnodes, loopvar=lv))
    return decls, unfolded


def cpu_table(repo):
    """cpu module -> dict(specmods=[module names], maxlen=int|None, endian=node|None, line)"""
    out = {}
    for m in repo.modules.values():
        if not m.name.startswith("amoco.arch."):
            continue
        for s in m.tree.body:
            if (
                isinstance(s, ast.Assign)
                and isinstance(s.value, ast.Call)
                and isinstance(s.value.func, ast.Name)
                and s.value.func.id == "disassembler"
                and s.value.args
                and isinstance(s.value.args[0], ast.List)
            ):
                mods = []
                for e in s.value.args[0].elts:
                    if isinstance(e, ast.Name):
                        r = repo.lookup(m.name, e.id)
                        mods.append(r[1][1] if r and r[1][0] == "module" else None)
                    else:
                        mods.append(None)
                ent = {"specmods": mods, "maxlen": None, "line": s.lineno, "target": norm(s.targets[0]), "call": s.value}
                out[m.name] = ent
        if m.name in out:
            for s in m.tree.body:
                if isinstance(s, ast.Assign) and len(s.targets) == 1:
                    t = s.targets[0]
                    if isinstance(t, ast.Attribute) and t.attr == "maxlen" and norm(t.value) == out[m.name]["target"]:
                        out[m.name]["maxlen"] = _fold_val(s.value, {})
                        out[m.name]["maxlen_node"] = s
    return out
