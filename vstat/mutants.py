"""Self-test mutant catalogue: (name, property, file, old text, new text, 'fire'|'silent', needle in output).
old=None means the unchanged tree.  Each breaking mutant still compiles; needles name the instance."""

MUTANTS = [
    # ---------------------------------------------------------------- unchanged tree
    ("clean-C03", "C03", "amoco/arch/core.py", None, None, "silent", None),
    ("clean-C17", "C17", "amoco/arch/core.py", None, None, "silent", None),
    ("clean-C11", "C11", "amoco/arch/core.py", None, None, "silent", None),
    # ---------------------------------------------------------------- C03
    ("fmt-width-short", "C03", "amoco/arch/riscv/rv32i/spec_rv32i.py",
     '@ispec("32<[ 0000000 imm(5) rs1(5) 001 rd(5) 0010011 ]", mnemonic="SLLI")',
     '@ispec("32<[ 0000000 imm(4) rs1(5) 001 rd(5) 0010011 ]", mnemonic="SLLI")', "fire", "widths sum to 31"),
    ("sig-param-rename", "C03", "amoco/arch/riscv/rv32i/spec_rv32i.py",
     "def riscv_store(obj, imm2, rs1, rs2, imm1):\n    r1 = env.x[rs1]\n    r2 = env.x[rs2]", "def riscv_store(obj, imm2, rs1, rs_2, imm1):\n    r1 = env.x[rs1]\n    r2 = env.x[rs_2]", "fire", "riscv_store"),
    # ---------------------------------------------------------------- C11
    ("reset-drop-final", "C11", "amoco/arch/core.py",
     "                    break\n        self.__i = None\n        return None", "                    break\n        return None", "fire", "return None"),
    ("reset-drop-exc-handler", "C11", "amoco/arch/core.py",
     "                    except Exception:\n                        # unexpected error in a spec hook: drop any pending prefix\n                        self.__i = None\n                        raise",
     "                    except Exception:\n                        raise", "fire", "exception"),
    ("reset-conditional", "C11", "amoco/arch/core.py",
     "                    self.__i = None\n                    if \"address\" in kargs:",
     "                    if \"address\" in kargs:\n                        self.__i = None\n                    if \"address\" in kargs:", "fire", "return i"),
    ("rollback-drop-restore", "C11", "amoco/arch/core.py",
     "            i.bytes = saved_bytes\n", "            pass\n", "fire", "restore"),
    ("globalw-hook", "C11", "amoco/arch/x86/spec_ia32.py",
     "def prefix_grp3(obj, _pfx):\n", "def prefix_grp3(obj, _pfx):\n    env.internals[\"mode\"] = 16\n", "fire", "prefix_grp3"),
    ("reset-benign-rename", "C11", "amoco/arch/core.py",
     "        fl = self.specs[self.iset(**kargs)]", "        fl = self.specs[self.iset(**kargs)]\n        logger.debug(\"decoding\")", "silent", None),
    # ---------------------------------------------------------------- C17
    ("name-typo-hook", "C17", "amoco/arch/riscv/rv32i/spec_rv32i.py",
     "def riscv_ri_shifts(obj, imm, rs1, rd):\n    src1 = env.x[rs1]", "def riscv_ri_shifts(obj, imm, rs1, rd):\n    src1 = env.xx[rs1]", "fire", "env.xx"),
    ("name-typo-sem", "C17", "amoco/arch/riscv/rv32i/asm.py", "def i_XORI(ins, fmap):\n    dst, src1, src2 = ins.operands", "def i_XORI(ins, fmap):\n    dst, src1, src2 = ins.oprands_(fmap)", "silent", None),
]
