import argparse
import os
import sys


def main(argv=None):
    ap = argparse.ArgumentParser(prog="vstat")
    sub = ap.add_subparsers(dest="cmd", required=True)
    c = sub.add_parser("check")
    c.add_argument("pid")
    c.add_argument("--tier", default=os.environ.get("VERIF_TIER", "quick"), choices=["quick", "thorough"])
    e = sub.add_parser("explain")
    e.add_argument("path")
    s = sub.add_parser("selftest")
    s.add_argument("-j", type=int, default=16)
    s.add_argument("--only", default=None)
    sub.add_parser("controls")
    sub.add_parser("list")
    a = ap.parse_args(argv)
    if a.cmd == "check":
        from .props import PROPS
        from .harness import run_property

        if a.pid not in PROPS:
            print("ANALYSIS-ERROR unknown or unclaimed property %s" % a.pid)
            return 2
        seed = int(os.environ.get("VERIF_SEED", "0") or 0)
        return run_property(a.pid, PROPS[a.pid], a.tier, seed)
    if a.cmd == "explain":
        import json

        d = json.load(open(a.path))
        print(json.dumps(d, indent=1))
        print("\nTo re-derive: /venv/bin/python -m vstat check %s --tier %s" % (d.get("property"), d.get("tier", "quick")))
        return 0
    if a.cmd == "list":
        from .props import PROPS

        for k, v in sorted(PROPS.items()):
            print(k, v["title"])
        return 0
    if a.cmd == "controls":
        from .controls import run_controls

        return run_controls()
    if a.cmd == "selftest":
        from .selftest import run_selftest

        return run_selftest(a.j, a.only)


if __name__ == "__main__":
    sys.exit(main())
