"""E6: model of the StructDefine field language + C layout calculator + interpreter of the
field-list edit idioms used by the format classes (64-bit / byte-order switches).

Written from the StructDefine docstring:  one field per line  `T[*length] : [<|>]name [; comment]`.
"""
import ast
import re

from .index import AnalysisError, norm

RAW_SIZE = {"x": 1, "c": 1, "b": 1, "B": 1, "s": 1, "h": 2, "H": 2, "i": 4, "I": 4, "f": 4, "q": 8, "Q": 8, "d": 8}
PTR_LETTERS = ("P", "L", "l", "n", "N")

_LINE = re.compile(r"^\s*([A-Za-z_][A-Za-z0-9_/$]*)\s*(?:\*\s*([^:\s]+))?\s*:\s*([<>])?\s*([A-Za-z_][A-Za-z0-9_/$]*)\s*(?:;(.*))?$")


class FieldM:
    __slots__ = ("typename", "count", "name", "order", "kind")

    def __init__(self, typename, count, name, order):
        self.typename = typename
        self.count = count  # int | str (special) | list (bits)
        self.name = name
        self.order = order
        self.kind = "raw" if typename in RAW_SIZE or typename in PTR_LETTERS else "struct"

    def copy(self):
        return FieldM(self.typename, self.count, self.name, self.order)

    def __repr__(self):
        return "%s%s:%s" % (self.typename, "*%s" % self.count if self.count else "", self.name)


def parse_structdef(text):
    fields = []
    for ln in text.splitlines():
        if not ln.strip():
            continue
        m = _LINE.match(ln)
        if not m:
            raise ValueError("unparsable field line %r" % ln)
        t, cnt, order, name, _c = m.groups()
        count = 0
        if cnt is not None:
            if cnt.isdigit():
                count = int(cnt)
            elif cnt.startswith("#"):
                count = [int(x) for x in cnt[1:].split("/")]
            else:
                count = cnt
        fields.append(FieldM(t, count, name, order))
    return fields


class StructM:
    def __init__(self, cls, fields, packed=False):
        self.cls = cls  # ClassInfo
        self.fields = fields
        self.packed = packed


def collect_structs(repo, rel):
    """class name -> StructM for every StructDefine-decorated class of a module"""
    m = repo.mod(rel)
    out = {}
    for c in m.classes.values():
        for d in c.node.decorator_list:
            if isinstance(d, ast.Call) and norm(d.func) == "StructDefine" and d.args and isinstance(d.args[0], ast.Constant) and isinstance(d.args[0].value, str):
                packed = any(k.arg == "packed" and isinstance(k.value, ast.Constant) and k.value.value for k in d.keywords)
                try:
                    out[c.name] = StructM(c, parse_structdef(d.args[0].value), packed)
                except ValueError as e:
                    out[c.name] = e
    return out


def field_size_align(f, structs, psize=8):
    """(size, alignment) of one element of field f; None if variable/unknown"""
    if isinstance(f.count, list):
        base = RAW_SIZE.get(f.typename)
        return (base, base) if base else None
    if f.typename in RAW_SIZE:
        s = RAW_SIZE[f.typename]
        return s, s
    if f.typename in PTR_LETTERS:
        return psize, psize
    sm = structs.get(f.typename)
    if isinstance(sm, StructM):
        lay = layout(sm, structs, psize)
        if lay is None:
            return None
        return lay["size"], lay["align"]
    return None


def layout(sm, structs, psize=8):
    """C layout: {'size','align','fields':[(name, offset, size)]} or None when a field is variable-length/unknown"""
    off = 0
    A = 1
    res = []
    for f in sm.fields:
        sa = field_size_align(f, structs, psize)
        if sa is None or isinstance(f.count, str):
            return None
        s, a = sa
        n = f.count if isinstance(f.count, int) and f.count > 0 else 1
        if not sm.packed:
            if off % a:
                off += a - off % a
            A = max(A, a)
        res.append((f.name, off, s * n))
        off += s * n
    if not sm.packed and off % A:
        off += A - off % A
    return {"size": off, "align": A, "fields": res}


# ----------------------------------------------------------------------------------------- edit scripts
class Undecided(Exception):
    pass


def _const(e):
    if isinstance(e, ast.Constant):
        return e.value
    if isinstance(e, ast.UnaryOp) and isinstance(e.op, ast.USub) and isinstance(e.operand, ast.Constant):
        return -e.operand.value
    raise Undecided("non-constant %s" % norm(e))


def apply_edit_script(stmts, fields, env=None):
    """interpret the closed set of field-list edit idioms on a copy of `fields` (list of FieldM).
    Any other statement touching `fields` raises Undecided."""
    fields = [f.copy() for f in fields]
    env = dict(env or {})

    def is_fields(e):
        return isinstance(e, ast.Attribute) and e.attr == "fields" and isinstance(e.value, ast.Name) and e.value.id == "self"

    def eval_field_expr(e):
        """-> list of FieldM denoted by e"""
        if isinstance(e, ast.Name) and e.id in env:
            v = env[e.id]
            return v if isinstance(v, list) else [v]
        if isinstance(e, ast.Subscript) and is_fields(e.value):
            if isinstance(e.slice, ast.Slice):
                lo = _const(e.slice.lower) if e.slice.lower is not None else None
                hi = _const(e.slice.upper) if e.slice.upper is not None else None
                return fields[lo:hi]
            idx = e.slice
            if isinstance(idx, ast.Name) and idx.id in env:
                return [fields[env[idx.id]]]
            return [fields[_const(idx)]]
        if is_fields(e):
            return list(fields)
        raise Undecided("field expression %s" % norm(e))

    def run(stmts):
        for s in stmts:
            if isinstance(s, ast.Assign):
                # a.typename = b.typename = "Q"   |  self.fields[i].typename = "Q"  |  v = self.fields.pop(k)
                if isinstance(s.value, ast.Call) and isinstance(s.value.func, ast.Attribute) and s.value.func.attr == "pop" and is_fields(s.value.func.value):
                    k = _const(s.value.args[0]) if s.value.args else -1
                    v = fields.pop(k)
                    if len(s.targets) == 1 and isinstance(s.targets[0], ast.Name):
                        env[s.targets[0].id] = v
                        continue
                    raise Undecided(norm(s))
                if all(isinstance(t, ast.Attribute) and t.attr in ("typename", "order", "count") for t in s.targets):
                    val = _const(s.value)
                    for t in s.targets:
                        for f in eval_field_expr(t.value):
                            setattr(f, t.attr, val)
                    continue
                if any("fields" in norm(t) for t in s.targets) or "fields" in norm(s.value):
                    raise Undecided(norm(s))
                continue
            if isinstance(s, ast.Expr) and isinstance(s.value, ast.Call) and isinstance(s.value.func, ast.Attribute) and is_fields(s.value.func.value):
                c = s.value
                if c.func.attr == "insert":
                    k = _const(c.args[0])
                    v = eval_field_expr(c.args[1])
                    fields.insert(k, v[0])
                    continue
                if c.func.attr == "append":
                    fields.append(eval_field_expr(c.args[0])[0])
                    continue
                if c.func.attr == "pop":
                    fields.pop(_const(c.args[0]) if c.args else -1)
                    continue
                raise Undecided(norm(s))
            if isinstance(s, ast.For):
                it = s.iter
                if isinstance(it, (ast.Tuple, ast.List)) and isinstance(s.target, ast.Name):
                    for e in it.elts:
                        env[s.target.id] = _const(e)
                        run(s.body)
                    continue
                if isinstance(it, ast.Call) and norm(it.func) == "range" and isinstance(s.target, ast.Name):
                    for k in range(*[_const(a) for a in it.args]):
                        env[s.target.id] = k
                        run(s.body)
                    continue
                if isinstance(s.target, ast.Name):
                    for f in eval_field_expr(it):
                        env[s.target.id] = f
                        run(s.body)
                    continue
                raise Undecided(norm(s)[:60])
            if isinstance(s, ast.If):
                # nested conditions are not interpreted
                if any("fields" in norm(x) for x in ast.walk(s) if isinstance(x, (ast.Attribute,))):
                    raise Undecided("nested condition on fields: %s" % norm(s.test))
                continue
            if any(isinstance(x, ast.Attribute) and x.attr == "fields" for x in ast.walk(s)):
                raise Undecided(norm(s)[:80])
        return

    run(stmts)
    return fields
