"""E4: statement-level control-flow graph with exception edges.

Nodes are simple statements and the headers of compound statements.  Edge labels:
  'n' normal, 't'/'f' branch outcome of a test node, 'exc' exception edge,
  'back' loop back-edge (also normal flow).
Special nodes: ENTRY, EXIT (return / fall off the end), RAISE (exception leaves the function).
"""
import ast

from .index import AnalysisError


class Node:
    __slots__ = ("id", "kind", "ast", "line", "info")

    def __init__(self, id, kind, astnode=None, info=None):
        self.id = id
        self.kind = kind
        self.ast = astnode
        self.line = getattr(astnode, "lineno", 0)
        self.info = info

    def __repr__(self):
        return "<%d %s L%d>" % (self.id, self.kind, self.line)


CATCH_ALL = {"Exception", "BaseException"}


def handler_names(h):
    """class names caught by an ExceptHandler; None = bare except."""
    if h.type is None:
        return None
    out = []
    for e in h.type.elts if isinstance(h.type, ast.Tuple) else [h.type]:
        if isinstance(e, ast.Name):
            out.append(e.id)
        elif isinstance(e, ast.Attribute):
            out.append(e.attr)
        else:
            out.append("?")
    return out


def default_may_raise(node):
    """can evaluating this statement header / simple statement raise?  (syntactic, conservative)"""
    if isinstance(node, (ast.Raise, ast.Assert)):
        return True
    for n in _walk_no_nested(node):
        if isinstance(n, (ast.Call, ast.Subscript, ast.BinOp, ast.Attribute, ast.Await, ast.Yield, ast.YieldFrom)):
            return True
    return False


def _walk_no_nested(node):
    """walk an AST without entering nested function/lambda/class bodies."""
    todo = [node]
    while todo:
        n = todo.pop()
        yield n
        for c in ast.iter_child_nodes(n):
            if isinstance(c, (ast.FunctionDef, ast.AsyncFunctionDef, ast.Lambda, ast.ClassDef)):
                continue
            todo.append(c)


def header_exprs(stmt):
    """the expressions evaluated by the node that represents `stmt` (not its nested blocks)."""
    if isinstance(stmt, (ast.If, ast.While)):
        return [stmt.test]
    if isinstance(stmt, (ast.For, ast.AsyncFor)):
        return [stmt.iter, stmt.target]
    if isinstance(stmt, (ast.With, ast.AsyncWith)):
        out = []
        for it in stmt.items:
            out.append(it.context_expr)
            if it.optional_vars is not None:
                out.append(it.optional_vars)
        return out
    if isinstance(stmt, ast.Try):
        return []
    if isinstance(stmt, ast.ExceptHandler):
        return [stmt.type] if stmt.type is not None else []
    if isinstance(stmt, (ast.FunctionDef, ast.AsyncFunctionDef, ast.ClassDef)):
        return list(stmt.decorator_list)
    if isinstance(stmt, ast.Match):
        return [stmt.subject]
    return [stmt]


class CFG:
    def __init__(self, fnode, may_raise=None, exc_class_of=None, is_subclass=None):
        """fnode: FunctionDef (or Module for top level).
        may_raise(ast) -> bool: which statements get exception edges.
        exc_class_of(stmt) -> set of class names the statement may raise, or None (= anything).
        is_subclass(name, handler_name) -> bool for by-name handler matching."""
        self.fnode = fnode
        self.nodes = []
        self.succ = {}
        self.pred = {}
        self.may_raise = may_raise or default_may_raise
        self.exc_class_of = exc_class_of or (lambda s: None)
        self.is_subclass = is_subclass or (lambda a, b: a == b)
        self.entry = self._new("ENTRY")
        self.exit = self._new("EXIT")
        self.raise_ = self._new("RAISE")
        self.stmt_node = {}  # id(ast stmt) -> Node
        body = fnode.body
        outs = self._block(body, [(self.entry, "n")], _Ctx())
        for p, lab in outs:
            self._edge(p, self.exit, lab)

    # ------------------------------------------------------------ plumbing
    def _new(self, kind, astnode=None, info=None):
        n = Node(len(self.nodes), kind, astnode, info)
        self.nodes.append(n)
        self.succ[n.id] = []
        self.pred[n.id] = []
        return n

    def _edge(self, a, b, label="n"):
        if (b.id, label) not in [(x.id, l) for x, l in self.succ[a.id]]:
            self.succ[a.id].append((b, label))
            self.pred[b.id].append((a, label))

    def _connect(self, preds, node):
        for p, lab in preds:
            self._edge(p, node, lab)

    def _exc_edges(self, node, stmt_ast, ctx):
        """add exception edges from node according to the try stack."""
        classes = self.exc_class_of(stmt_ast)
        self._route_exception(node, classes, ctx.trystack)

    def _route_exception(self, node, classes, trystack):
        """classes: None (anything) or set of names."""
        remaining = None if classes is None else set(classes)
        for frame in reversed(trystack):
            if frame["kind"] == "finally":
                # exception passes through the finally body then continues outward
                self._edge(node, frame["entry"], "exc")
                frame["exc_through"] = True
                return
            handlers = frame["handlers"]
            for hnode, names in handlers:
                if names == []:
                    continue   # `except ():` catches nothing
                if names is None or (set(names) & CATCH_ALL):
                    self._edge(node, hnode, "exc")
                    return  # caught for sure
                if remaining is None:
                    self._edge(node, hnode, "exc")
                else:
                    hit = {c for c in remaining if any(self.is_subclass(c, hn) for hn in names)}
                    if hit:
                        self._edge(node, hnode, "exc")
                        remaining -= hit
                        if not remaining:
                            return
        self._edge(node, self.raise_, "exc")

    # ------------------------------------------------------------- builder
    def _block(self, stmts, preds, ctx):
        for s in stmts:
            preds = self._stmt(s, preds, ctx)
        return preds

    def _stmt(self, s, preds, ctx):
        if isinstance(s, ast.If):
            n = self._new("test", s)
            self.stmt_node[id(s)] = n
            self._connect(preds, n)
            if self.may_raise(s.test):
                self._exc_edges(n, s.test, ctx)
            t = self._block(s.body, [(n, "t")], ctx)
            f = self._block(s.orelse, [(n, "f")], ctx) if s.orelse else [(n, "f")]
            return t + f
        if isinstance(s, ast.While):
            n = self._new("test", s)
            self.stmt_node[id(s)] = n
            self._connect(preds, n)
            if self.may_raise(s.test):
                self._exc_edges(n, s.test, ctx)
            loop = {"head": n, "breaks": []}
            ctx.loops.append(loop)
            body_out = self._block(s.body, [(n, "t")], ctx)
            ctx.loops.pop()
            for p, lab in body_out:
                self._edge(p, n, "back" if lab == "n" else lab)
            const_true = isinstance(s.test, ast.Constant) and bool(s.test.value)
            outs = [] if const_true else [(n, "f")]
            if s.orelse:
                outs = self._block(s.orelse, outs, ctx)
            return outs + loop["breaks"]
        if isinstance(s, (ast.For, ast.AsyncFor)):
            n = self._new("for", s)
            self.stmt_node[id(s)] = n
            self._connect(preds, n)
            if self.may_raise(s.iter):
                self._exc_edges(n, s.iter, ctx)
            loop = {"head": n, "breaks": []}
            ctx.loops.append(loop)
            body_out = self._block(s.body, [(n, "t")], ctx)
            ctx.loops.pop()
            for p, lab in body_out:
                self._edge(p, n, "back" if lab == "n" else lab)
            outs = [(n, "f")]
            if s.orelse:
                outs = self._block(s.orelse, outs, ctx)
            return outs + loop["breaks"]
        if isinstance(s, (ast.With, ast.AsyncWith)):
            n = self._new("with", s)
            self.stmt_node[id(s)] = n
            self._connect(preds, n)
            if any(self.may_raise(it.context_expr) for it in s.items):
                self._exc_edges(n, s, ctx)
            return self._block(s.body, [(n, "n")], ctx)
        if isinstance(s, ast.Try) or (hasattr(ast, "TryStar") and isinstance(s, getattr(ast, "TryStar"))):
            return self._try(s, preds, ctx)
        if isinstance(s, ast.Return):
            n = self._new("return", s)
            self.stmt_node[id(s)] = n
            self._connect(preds, n)
            if s.value is not None and self.may_raise(s.value):
                self._exc_edges(n, s, ctx)
            # return passes through enclosing finally blocks
            fin = [f for f in ctx.trystack if f["kind"] == "finally"]
            if fin:
                self._edge(n, fin[-1]["entry"], "n")
                fin[-1]["ret_through"] = True
            else:
                self._edge(n, self.exit, "n")
            return []
        if isinstance(s, ast.Raise):
            n = self._new("raise", s)
            self.stmt_node[id(s)] = n
            self._connect(preds, n)
            if s.exc is None and ctx.handler_stack and ctx.handler_stack[-1] and "?" not in ctx.handler_stack[-1] and not (set(ctx.handler_stack[-1]) & CATCH_ALL):
                # a bare `raise` in `except (A, B):` re-raises an instance of A or B: an enclosing handler of A / B catches it
                self._route_exception(n, set(ctx.handler_stack[-1]), ctx.trystack)
            else:
                self._exc_edges(n, s, ctx)
            return []
        if isinstance(s, ast.Break):
            n = self._new("break", s)
            self.stmt_node[id(s)] = n
            self._connect(preds, n)
            if not ctx.loops:
                raise AnalysisError("break outside loop")
            ctx.loops[-1]["breaks"].append((n, "n"))
            return []
        if isinstance(s, ast.Continue):
            n = self._new("continue", s)
            self.stmt_node[id(s)] = n
            self._connect(preds, n)
            self._edge(n, ctx.loops[-1]["head"], "back")
            return []
        if isinstance(s, ast.Match):
            n = self._new("match", s)
            self.stmt_node[id(s)] = n
            self._connect(preds, n)
            outs = [(n, "f")]
            for c in s.cases:
                outs += self._block(c.body, [(n, "t")], ctx)
            return outs
        # simple statement (incl. nested def/class: just a binding)
        kind = "stmt"
        if isinstance(s, ast.Assert):
            kind = "assert"
        n = self._new(kind, s)
        self.stmt_node[id(s)] = n
        self._connect(preds, n)
        if isinstance(s, (ast.FunctionDef, ast.AsyncFunctionDef, ast.ClassDef)):
            return [(n, "n")]
        if self.may_raise(s):
            self._exc_edges(n, s, ctx)
        return [(n, "n")]

    def _try(self, s, preds, ctx):
        fin_frame = None
        if s.finalbody:
            fentry = self._new("finally", s)
            fin_frame = {"kind": "finally", "entry": fentry, "exc_through": False, "ret_through": False}
            ctx.trystack.append(fin_frame)
        hnodes = []
        for h in s.handlers:
            hn = self._new("except", h, info=handler_names(h))
            self.stmt_node[id(h)] = hn
            hnodes.append((hn, handler_names(h)))
        frame = {"kind": "try", "handlers": hnodes}
        ctx.trystack.append(frame)
        body_out = self._block(s.body, preds, ctx)
        ctx.trystack.pop()
        if s.orelse:
            body_out = self._block(s.orelse, body_out, ctx)
        outs = list(body_out)
        for (hn, names), h in zip(hnodes, s.handlers):
            ctx.handler_stack.append(names)
            outs += self._block(h.body, [(hn, "n")], ctx)
            ctx.handler_stack.pop()
        if fin_frame is not None:
            ctx.trystack.pop()
            self._connect(outs, fin_frame["entry"])
            fouts = self._block(s.finalbody, [(fin_frame["entry"], "n")], ctx)
            if fin_frame["exc_through"]:
                # re-raise after the finally body
                for p, lab in fouts:
                    self._route_exception(p, None, ctx.trystack)
            if fin_frame["ret_through"]:
                outer = [f for f in ctx.trystack if f["kind"] == "finally"]
                for p, lab in fouts:
                    self._edge(p, outer[-1]["entry"] if outer else self.exit, lab)
            return fouts
        return outs

    # -------------------------------------------------------------- queries
    def reachable_from(self, start, avoid=(), follow=lambda a, b, lab: True):
        """node ids reachable from `start` (Node) without entering nodes in `avoid` (ids)."""
        avoid = set(avoid)
        seen = set()
        todo = [start]
        while todo:
            n = todo.pop()
            for m, lab in self.succ[n.id]:
                if m.id in avoid or m.id in seen or not follow(n, m, lab):
                    continue
                seen.add(m.id)
                todo.append(m)
        return seen

    def some_path(self, start, goal_ids, avoid=(), follow=lambda a, b, lab: True):
        """a shortest path [(Node, label-of-edge-leaving-it)...] from start to any goal, never
        entering a node in `avoid`; None if there is none."""
        avoid = set(avoid)
        goal_ids = set(goal_ids)
        prev = {start.id: None}
        todo = [start]
        while todo:
            n = todo.pop(0)
            for m, lab in self.succ[n.id]:
                if m.id in prev or m.id in avoid or not follow(n, m, lab):
                    continue
                prev[m.id] = (n.id, lab)
                if m.id in goal_ids:
                    path = [(m.id, None)]
                    k = m.id
                    while prev[k] is not None:
                        pk, lab2 = prev[k]
                        path.append((pk, lab2))
                        k = pk
                    path.reverse()
                    return [(self.nodes[i], l) for i, l in path]
                todo.append(m)
        return None

    def forward(self, init, transfer, join, edge_filter=None):
        """generic forward dataflow.  transfer(node, state_in, label) -> state_out along that edge.
        returns dict node id -> in-state."""
        instate = {self.entry.id: init}
        work = [self.entry]
        while work:
            n = work.pop()
            s = instate[n.id]
            for m, lab in self.succ[n.id]:
                if edge_filter and not edge_filter(n, m, lab):
                    continue
                o = transfer(n, s, lab)
                if o is None:
                    continue
                if m.id in instate:
                    j = join(instate[m.id], o)
                    if j == instate[m.id]:
                        continue
                    instate[m.id] = j
                else:
                    instate[m.id] = o
                work.append(m)
        return instate

    def describe_path(self, path):
        out = []
        for n, lab in path:
            if n.kind in ("ENTRY", "EXIT", "RAISE"):
                out.append(n.kind)
            else:
                out.append("L%d:%s%s" % (n.line, n.kind, ("-%s->" % lab) if lab and lab != "n" else ""))
        return " ".join(out)


class _Ctx:
    def __init__(self):
        self.loops = []
        self.trystack = []
        self.handler_stack = []   # names caught by the except clauses whose bodies enclose the current statement


def stmt_nodes(cfg):
    return [n for n in cfg.nodes if n.kind not in ("ENTRY", "EXIT", "RAISE")]


def binds_name(node, var):
    """does CFG node (re)bind the local name var?"""
    s = node.ast
    if s is None:
        return False
    if node.kind in ("stmt",):
        if isinstance(s, ast.Assign):
            return any(isinstance(n, ast.Name) and n.id == var for t in s.targets for n in ast.walk(t) if isinstance(n, ast.Name) and isinstance(n.ctx, ast.Store))
        if isinstance(s, (ast.AugAssign, ast.AnnAssign)):
            return isinstance(s.target, ast.Name) and s.target.id == var
        if isinstance(s, (ast.Import, ast.ImportFrom)):
            return any((a.asname or a.name).split(".")[0] == var for a in s.names)
        if isinstance(s, (ast.FunctionDef, ast.ClassDef)):
            return s.name == var
    if node.kind == "for" and isinstance(s, (ast.For, ast.AsyncFor)):
        return any(isinstance(n, ast.Name) and n.id == var for n in ast.walk(s.target))
    if node.kind == "with":
        return any(it.optional_vars is not None and any(isinstance(n, ast.Name) and n.id == var for n in ast.walk(it.optional_vars)) for it in s.items)
    if node.kind == "except" and isinstance(s, ast.ExceptHandler):
        return s.name == var
    return False


def reaching_defs(cfg, var):
    """node id -> frozenset of def node ids of `var` that reach the node's entry (ENTRY id = parameter / undefined)."""
    def transfer(node, st, label):
        if label == "exc" and node.kind == "stmt":
            return st  # assignment did not complete
        if node.kind == "for" and label == "f":
            return st  # loop exit: target not (re)bound by this evaluation
        if binds_name(node, var):
            return frozenset([node.id])
        return st

    return cfg.forward(frozenset([cfg.entry.id]), transfer, lambda a, b: a | b)
