"""Canonicalisation of a function body for the second (helper-expanded) view of the harness.

Undoes the three commonest behaviour-preserving rewrites so that the rules' idiom recognition sees the same shapes:

  * definitions are resolved: in `nbits = self.fix.size; nbytes = nbits // 8` the second becomes `nbytes = self.fix.size // 8`
    (only single-assignment locals with side-effect-free values are substituted, and only into other definitions);
  * a temporary that is assigned once and used once, in the statement that follows its definition or with a side-effect-free
    value, is folded back into its use: `key = adjust(s.fix) & f; l[key].append(s)` -> `l[adjust(s.fix) & f].append(s)`;
    tuple unpacking of a name (`lo, hi = nk`) is read as `nk[0]`, `nk[1]`;
  * comparisons are written with < and <= only and without a leading `not`: `not a >= b` -> `a < b`, `b > a` -> `a < b`.
"""
import ast
import copy


def _pure(e):
    for n in ast.walk(e):
        if isinstance(n, ast.Call):
            if not (isinstance(n.func, ast.Name) and n.func.id in ("len", "int", "min", "max", "abs", "bool")):
                return False
        if isinstance(n, (ast.Yield, ast.YieldFrom, ast.Await, ast.NamedExpr, ast.Lambda, ast.ListComp, ast.DictComp, ast.SetComp, ast.GeneratorExp)):
            return False
    return True


class _NormCmp(ast.NodeTransformer):
    NEG = {ast.Lt: ast.GtE, ast.LtE: ast.Gt, ast.Gt: ast.LtE, ast.GtE: ast.Lt, ast.Eq: ast.NotEq, ast.NotEq: ast.Eq, ast.Is: ast.IsNot, ast.IsNot: ast.Is, ast.In: ast.NotIn, ast.NotIn: ast.In}

    def visit_UnaryOp(self, n):
        n = self.generic_visit(n)
        if isinstance(n.op, ast.Not) and isinstance(n.operand, ast.Compare) and len(n.operand.ops) == 1 and type(n.operand.ops[0]) in self.NEG:
            c = n.operand
            new = ast.Compare(left=c.left, ops=[self.NEG[type(c.ops[0])]()], comparators=c.comparators)
            return self.visit_Compare(ast.copy_location(new, n))
        return n

    def visit_Compare(self, n):
        n = self.generic_visit(n)
        if len(n.ops) == 1 and isinstance(n.ops[0], (ast.Gt, ast.GtE)):
            op = ast.Lt() if isinstance(n.ops[0], ast.Gt) else ast.LtE()
            return ast.copy_location(ast.Compare(left=n.comparators[0], ops=[op], comparators=[n.left]), n)
        return n


def _defs(fn):
    """name -> (assign stmt, value) for locals bound exactly once by a plain assignment (incl. elements of `a, b = name`)"""
    counts = {}
    for n in ast.walk(fn):
        if isinstance(n, ast.Name) and isinstance(n.ctx, ast.Store):
            counts[n.id] = counts.get(n.id, 0) + 1
        elif isinstance(n, ast.arg):
            counts[n.arg] = counts.get(n.arg, 0) + 1
    out = {}
    for n in ast.walk(fn):
        if isinstance(n, ast.Assign) and len(n.targets) == 1:
            t = n.targets[0]
            if isinstance(t, ast.Name) and counts.get(t.id) == 1:
                out[t.id] = (n, n.value)
            elif isinstance(t, ast.Tuple) and isinstance(n.value, ast.Name) and all(isinstance(e, ast.Name) for e in t.elts):
                for k, e in enumerate(t.elts):
                    if counts.get(e.id) == 1:
                        out[e.id] = (n, ast.Subscript(value=ast.Name(id=n.value.id, ctx=ast.Load()), slice=ast.Constant(value=k), ctx=ast.Load()))
    return out, counts


class _Sub(ast.NodeTransformer):
    def __init__(self, mapping):
        self.m = mapping

    def visit_Name(self, n):
        if isinstance(n.ctx, ast.Load) and n.id in self.m:
            return copy.deepcopy(self.m[n.id])
        return n

    def visit_FunctionDef(self, n):
        return n

    visit_Lambda = visit_AsyncFunctionDef = visit_FunctionDef


def canonical(fnode):
    fn = copy.deepcopy(fnode)
    # 1. resolve definitions into one another
    for _ in range(4):
        defs, counts = _defs(fn)
        pure = {k: v for k, (st, v) in defs.items() if _pure(v) and not any(isinstance(x, ast.Name) and x.id == k for x in ast.walk(v))}
        # operands must themselves be stable: parameters, self attributes, single-assignment names
        stable = {k: v for k, v in pure.items() if all(counts.get(x.id, 0) <= 1 for x in ast.walk(v) if isinstance(x, ast.Name))}
        changed = False
        for k, (st, v) in defs.items():
            if isinstance(st.targets[0], ast.Tuple):
                continue
            names = {x.id for x in ast.walk(st.value) if isinstance(x, ast.Name) and isinstance(x.ctx, ast.Load)}
            m = {n: stable[n] for n in names if n in stable and n != k}
            if m:
                st.value = _Sub(m).visit(st.value)
                changed = True
        if not changed:
            break
    # 2. fold used-once temporaries into their use
    defs, counts = _defs(fn)
    uses = {}
    for n in ast.walk(fn):
        if isinstance(n, ast.Name) and isinstance(n.ctx, ast.Load):
            uses[n.id] = uses.get(n.id, 0) + 1

    def fold_block(stmts):
        i = 0
        while i < len(stmts):
            s = stmts[i]
            for fld in ("body", "orelse", "finalbody"):
                b = getattr(s, fld, None)
                if isinstance(b, list) and b and isinstance(b[0], ast.stmt):
                    fold_block(b)
            for h in getattr(s, "handlers", []) or []:
                fold_block(h.body)
            if isinstance(s, ast.Assign) and len(s.targets) == 1 and i + 1 < len(stmts):
                t = s.targets[0]
                nxt = stmts[i + 1]
                if isinstance(t, ast.Name) and t.id in defs and defs[t.id][0] is s and uses.get(t.id, 0) == 1 and not t.id.startswith("__ret"):
                    # the single use must be in the header of the next statement (not inside its nested blocks executed later/repeatedly)
                    hdr = [nxt.test] if isinstance(nxt, (ast.If, ast.While)) else [nxt.iter] if isinstance(nxt, ast.For) else [nxt] if not isinstance(nxt, (ast.Try, ast.With, ast.FunctionDef, ast.ClassDef)) else []
                    if any(isinstance(x, ast.Name) and x.id == t.id and isinstance(x.ctx, ast.Load) for h_ in hdr for x in ast.walk(h_)):
                        sub = _Sub({t.id: s.value})
                        if isinstance(nxt, (ast.If, ast.While)):
                            nxt.test = sub.visit(nxt.test)
                        elif isinstance(nxt, ast.For):
                            nxt.iter = sub.visit(nxt.iter)
                        else:
                            stmts[i + 1] = sub.visit(nxt)
                        del stmts[i]
                        continue
            i += 1

    fold_block(fn.body)
    # tuple-unpacked names (`lo, hi = nk`) read as subscripts wherever they are used
    defs, counts = _defs(fn)
    unp = {k: v for k, (st, v) in defs.items() if isinstance(st.targets[0], ast.Tuple)}
    if unp and False:  # disabled: rules recognise the unpacked names (f, l = node); R-BOUNDARY resolves unpacking itself
        sub = _Sub(unp)
        fn.body = [sub.visit(st) for st in fn.body]
    # 3. comparisons
    fn = _NormCmp().visit(fn)
    ast.fix_missing_locations(fn)
    return fn
