"""Properties not claimed."""
NOT_APPLICABLE = {
    "C02": "equality of whole-block symbolic maps with step-by-step concrete execution quantifies over runtime values of ~1500 semantics functions and map composition; no clause of it is visible in the shape of the code (state-dependent branching in semantics is legitimate), so any static rule would alarm on correct code",
    "C09": "correctness under every concrete pointer assignment depends on overlap arithmetic and ordered replay of runtime write lists (mem.mods); nothing but values decides it",
}
# claimed in DESIGN.md but whose rules are not finished: listed as not applicable with reason "not built"
NOT_BUILT = {p: "not built yet (static rules designed in DESIGN.md section 4 but not finished and self-tested; not claimed rather than shipped vacuous)" for p in
             ("C01", "C05", "C06", "C08", "C10", "C11", "C12", "C13", "C14", "C15", "C16", "C17", "C18", "C19", "C20")}
