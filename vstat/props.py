"""property -> rules table."""
from .rules import spec as R_spec

Q = ("quick", "thorough")
T = ("thorough",)

PROPS = {
    "C03": dict(
        title="Instruction specifications mean what the format language says",
        explanation=(
            "Decides the data half of C03: every shipped @ispec/@ispec_ia32 format string is a well-formed sentence of the "
            "documented format language (as read by an interpreter written from the ispec docstring, independent of "
            "ispec.buildspec), and each specification hands its setup function exactly the named fields that function can "
            "take. Does NOT decide that buildspec/decode compute fix/mask/extractors as documented (interpreter behaviour)."
        ),
        rules=[(R_spec.r_fmt, Q), (R_spec.r_sig, Q), (R_spec.r_dupfmt, T)],
        exhaustive=True,
        level_text="partial (data half): every one of the ~5170 shipped ispec format strings is checked, exhaustively, to be a well-formed sentence of the documented format language and to deliver exactly the keyword arguments its setup function accepts; static table/signature cross-check, so it covers all specifications where the tests decode ~150 words",
        level_note="Trusted: CPython ast; vstat's format interpreter (written from the ispec docstring, validated once against buildspec's fix/mask on all 5073 importable specs by tools/validate_ispecmodel.py). Not decided: that ispec.buildspec/decode themselves extract the documented bits for all words and both fetch endiannesses.",
        technique="static table lint: independent format-language interpreter + spec/signature cross-check over the AST",
        trusted_base=["vstat.ispecmodel (format interpreter written from the ispec docstring)", "crysp Bits prints LSB first (used by the /digit macro)"],
        assumptions=["decorator format strings are literals or the three loop-generated dwarf families (anything else is listed as undecided)"],
    ),
}
