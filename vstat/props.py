"""property -> rules table."""
from .rules import spec as R_spec
from .rules import c17 as R_c17
from .rules import c11 as R_c11
from .rules import c08 as R_c08
from .rules import c05 as R_c05
from .rules import cas as R_cas
from .rules import c10 as R_c10
from .rules import c06 as R_c06
from .rules import structs as R_st
from .rules import formats as R_fm
from .rules import c20 as R_c20
from .rules import c18c19 as R_cc
from .rules import own as R_own

Q = ("quick", "thorough")
T = ("thorough",)

PROPS = {
    "C03": dict(
        title="Instruction specifications mean what the format language says",
        explanation=(
            "Decides the data half of C03: every shipped @ispec/@ispec_ia32 format string is a well-formed sentence of the "
            "documented format language (as read by an interpreter written from the ispec docstring, independent of "
            "ispec.buildspec), and each specification hands its setup function exactly the named fields that function can "
            "take; (R-DECODE) ispec.decode guards, slices and records the fixed part with one and the same bound and hands variable-length specs the whole rest of the input. Does NOT decide that buildspec computes fix/mask/extractors as documented for arbitrary format strings (interpreter behaviour)."
        ),
        rules=[(R_spec.r_fmt, Q), (R_spec.r_sig, Q), (R_spec.r_decode, Q), (R_c11.r_globalw_decode, Q)],
        exhaustive=True,
        level_text="partial (data half): every one of the ~5170 shipped ispec format strings is checked, exhaustively, to be a well-formed sentence of the documented format language and to deliver exactly the keyword arguments its setup function accepts; static table/signature cross-check, so it covers all specifications where the tests decode ~150 words",
        level_note="Trusted: CPython ast; vstat's format interpreter (written from the ispec docstring, validated once against buildspec's fix/mask on all 5073 importable specs by tools/validate_ispecmodel.py). Not decided: that ispec.buildspec/decode themselves extract the documented bits for all words and both fetch endiannesses.",
        technique="static table lint: independent format-language interpreter + spec/signature cross-check over the AST",
        trusted_base=["vstat.ispecmodel (format interpreter written from the ispec docstring)", "crysp Bits prints LSB first (used by the /digit macro)"],
        assumptions=["decorator format strings are literals or the three loop-generated dwarf families (anything else is listed as undecided)"],
    ),
    "C17": dict(
        title="Decoding and executing any bytes never crashes, and instructions are well formed",
        explanation=(
            "Decides the crash classes that are visible without running, in everything reachable (name-resolved call graph) "
            "from the 25 disassembler instances: all spec setup functions and preconditions, all i_XXX semantics of every "
            "cpu module's uarch, the functions named in the Formatter tables, icore.__call__, ispec.decode, "
            "CoreExec.read_instruction, lsweep.sequence, emul.stepi: (1) unresolved names (NameError), (2) reads of "
            "amoco-module attributes that the module does not bind (AttributeError), (3) name-mangled private attributes "
            "read but never stored, (4) spec/setup-function keyword mismatches (TypeError on every matching word). "
            "Does NOT decide totality over all byte strings (type errors, KeyError on computed keys, arithmetic on wrong kinds)."
        ),
        rules=[(R_c17.r_import_c17, Q), (R_c17.r_name_c17, Q), (R_c17.r_modattr_c17, Q), (R_c17.r_priv_c17, Q), (R_c17.r_arity_c17, Q), (R_c17.r_dupkey_c17, Q), (R_c17.r_unbound_c17, T), (R_spec.r_sig, Q), (R_spec.r_dupfmt, Q), (R_c06.r_sizetab, Q), (R_spec.r_boundidx, Q), (R_c17.r_objattr_c17, Q), (R_c17.r_miscnone_c17, Q)],
        level_text="partial: static scope/signature analysis over every function reachable from decode, format and execute entry points of all ISAs (~3000+ functions); each report is a definite NameError/AttributeError/TypeError for every input that reaches the line; the tests decode ~150 words and execute a handful of semantics",
        level_note="Trusted: CPython ast; by-name callee resolution (no type inference), so attribute typos on non-module objects and implicit exceptions (IndexError/KeyError/TypeError on values) are out of reach. Unresolvable namespaces and deliberate bare-name crash markers are listed as undecided, not alarmed.",
        technique="static scope resolution + call-graph reachability + spec/signature cross-check over the AST",
        trusted_base=["vstat.scopes (flow-insensitive LEGB resolver)", "vstat.callgraph (by-name reachability)"],
        assumptions=["star-import closure is computed over amoco modules only; all star-imports in arch/, cas/, system/ target amoco modules"],
    ),
    "C11": dict(
        title="Decoding has no memory of earlier calls",
        explanation=(
            "Decides that no state channel exists from one decode call to the next: (R-RESET) typestate analysis on the CFG of "
            "disassembler.__call__, with exception edges from every call outside a stated no-raise trusted base, shows the "
            "pending-prefix instruction is None on every exit except the tail call into itself; (R-ROLLBACK) ispec.decode "
            "restores the pending instruction's bytes and deletes the attributes it set when the hook/precondition rejects; "
            "(R-GLOBALW) no setup function, helper reachable from one inside amoco/arch, or precondition writes module-level "
            "state. Does NOT decide value equality with a fresh-process decode."
        ),
        rules=[(R_c11.r_reset, Q), (R_c11.r_rollback, Q), (R_c11.r_globalw_decode, Q)],
        level_text="all paths of disassembler.__call__ (normal and exceptional) are covered by a typestate dataflow over its CFG; all ~1050 decode-time functions are scanned for stores to module-level state; the tests exercise no failing-hook history at all",
        level_note="Trusted no-raise base inside __call__: crysp Bits(), the endian/iset configuration lambdas, dict.get, codecs.encode, logger; `except Exception` is treated as catch-all (BaseException such as KeyboardInterrupt is outside the fault model); callee resolution is by name.",
        technique="typestate dataflow on a statement CFG with exception edges + who-may-write effect scan over the call graph",
        trusted_base=["vstat.cfg (statement CFG with exception edges)", "no-raise table NORAISE_CALLEES in vstat/rules/c11.py"],
        assumptions=["exceptions considered are subclasses of Exception"],
    ),
    "C08": dict(
        title="Abstract memory behaves as a last-write-wins byte store",
        explanation=(
            "Decides two structural necessary conditions of the byte-store behaviour: (R-CACHE) the start-address cache that "
            "MemoryZone.locate() bisects is refreshed after every edit of a zone's object list on every path to a normal exit, "
            "in memory.py and in every external editor found in the tree (raw.py, vm/dwarf.py); (R-XFER) the restruct / copy / "
            "merge / mergeparts loops transfer every object (no path through a loop body drops the element); (R-ENDTAG) every datadiv/mo construction and byte slicing in memory.py tags bytes with the endianness of the object they were cut from (or with the caller's argument for the caller's data). "
            "Does NOT decide the overlap arithmetic of addtomap/setpart/getpart or endianness slicing (byte-for-byte equality)."
        ),
        rules=[(R_c08.r_cache, Q), (R_c08.r_xfer_c08, Q), (R_c08.r_endtag, Q), (R_cas.r_rebuild, Q)],
        level_text="partial: must-pass-through on the CFG of every function that edits a zone map (8 functions, 13 edit sites) and path enumeration over 5 transfer loops; covers all paths including the rarely taken ones (empty map, j==i, TypeError merge fallback) that the 4 memory tests do not reach",
        level_note="Trusted: refresher summaries are one-level and limited to MemoryZone/MemoryMap/mapper (restruct & co); the emptiness early-return idiom of restruct is accepted; exception exits are not required to refresh; receivers of `_map` outside MemoryZone are identified by attribute name.",
        technique="must-pass-through (post-dominance) on statement CFGs + path enumeration of transfer loops",
        trusted_base=["vstat.cfg", "refresher summary in vstat/rules/c08.py"],
        assumptions=["a zone's object list is only reachable through the attribute name _map"],
    ),
    "C05": dict(
        title="A decoded instruction is determined by the bytes it consumes",
        explanation=(
            "Decides the structural clauses of C05 for all variable-length ISAs: (R-PAIR) in every setup function and tail "
            "helper (221 functions: getModRM x2, msp430 getopd, immediate/LEB128 readers) each consuming read of the variable "
            "tail is followed on every normal path by `obj.bytes += <that piece>` (consumed bytes are recorded bytes, so "
            "instruction.bytes is a prefix of the input and length accounts for everything read); (R-TAILCHK) each bounded "
            "tail slice is dominated by a raising length test of the same tail against the same bound (so a buffer that ends "
            "before the piece is rejected instead of decoding differently from the same bytes followed by a suffix); "
            "(R-MAXLEN) cpu modules with '*'/'&' specs set disassemble.maxlen explicitly; (R-FMT) every spec has LEN>=8 "
            "(length >= 1). Does NOT decide equality of d(b), d(b[:n]), d(b[:n]+t) for all inputs nor over-reads inside ispec.decode."
        ),
        rules=[(R_c05.r_pair, Q), (R_c05.r_tailchk, Q), (R_c11.r_rollback, Q), (R_spec.r_decode, Q), (R_spec.r_maxlen, Q), (R_spec.r_fmt, Q), (R_c11.r_globalw_decode, Q), (R_c05.r_overguard, Q)],
        level_text="partial: def-use pairing and dominance on the CFG of all 221 tail-taking functions (69 with direct reads, 65 bounded slices) of every ISA; the tests decode a handful of ModRM forms and never a truncated immediate",
        level_note="Trusted: tail variables are tracked by the enumerated rebinding idioms (pack(), open slices, tuple split, helper return); crysp Bits slicing semantics (short slices do not raise); a piece that is only inspected in tests is look-ahead (undecided, not alarmed).",
        technique="def-use pairing + dominator/must-pass-through queries on statement CFGs, table lint of cpu modules",
        trusted_base=["vstat.cfg", "idiom tables in vstat/rules/c05.py"],
        assumptions=["variable tails are only delivered through (*) directives"],
    ),
    "C01": dict(
        title="Expression algebra preserves bit-vector meaning",
        explanation=(
            "Decides that every table-driven rewrite and dispatch of cas/expressions.py is algebraically valid, by comparing the "
            "tables extracted from the AST with a vendored reference table of fixed-width bit-vector identities "
            "(ref/bv_identities.json): identity/annihilator/idempotence/self-inverse guarded returns of eqn2_helpers, the 1-bit "
            "==/!= rewrites, the comparison-negation dict, sign composition of nested +/-, the operator-symbol <-> Python "
            "operator <-> cst implementation round trip, and that operators declared unsigned are implemented unsigned; plus "
            "(R-WIDTH) that no rewrite returns an operand or 1-bit literal for an operator of different result width. Does NOT "
            "decide constant-folding arithmetic, mask->slice, shift->composition, reassociation, comp bookkeeping or evaluation."
        ),
        rules=[(R_cas.r_algtab, Q), (R_cas.r_width, Q), (R_cas.r_signview, Q)],
        level_text="partial: all 94 extracted table rows (guarded returns, negation pairs, sign composition, 23 operator symbols x round trip, cst folding operators) are compared with the reference; exhaustive over the rows, which the tests exercise only through a dozen expressions",
        level_note="Trusted: ref/bv_identities.json (hand-written from the operator definitions); the guarded-return extractor recognises conjunctions of e.X._is_K, e.r.value == k, e.op.symbol in/==, e.r.size == 1, str(e.l)==str(e.r); unrecognised returns are not decided and a floor on recognised rows turns mass non-recognition into an analysis error.",
        technique="table extraction from the AST compared with a vendored reference table (table subset-of reference)",
        trusted_base=["ref/bv_identities.json", "guarded-return extractor in vstat/rules/cas.py"],
        assumptions=["the two `ext == 0` rules are a documented assumption of the code base and out of C01's quantifier"],
        exhaustive=True,
    ),
    "C12": dict(
        title="Every expression has the width its construction dictates",
        explanation=(
            "Decides: (R-WIDTH) rewrites never return an operand or fixed-width literal in place of a node of different width "
            "(width classes read from op.__init__/_operator.__init__); (R-SIZEIMM) `.size` of an expression is assigned only in "
            "constructors/__setstate__ within cas/expressions.py, cas/mapper.py, system/memory.py, system/core.py, and every exp "
            "subclass constructor assigns size and sf on every normal path; (R-REBUILD) a mem rebuilt from another one passes its size and endianness; "
            "(R-SPAN) in class comp a part stored under key (lo, hi) as top(n)/cst(x, n)/slice is hi-lo bits wide by integer-linear "
            "comparison under the tested equalities, and smask updates cover the same bits. Does NOT decide widths of parts stored from "
            "arbitrary values, slice arithmetic outside comp, widths through eval."
        ),
        rules=[(R_cas.r_width, Q), (R_cas.r_width_fields, Q), (R_cas.r_rebuild, Q), (R_cas.r_sizeimm, Q), (R_cas.r_span, Q)],
        level_text="partial: guarded-return x width-class table check over the rewrite helpers, who-may-write scan of `.size`, definite-assignment on the CFG of the 16 exp constructors",
        level_note="Trusted: provenance classification of receivers (parameter / read-out-of-parameter / fresh constructor result / unknown); unknown receivers are undecided. Stores of `.size` in amoco/arch are handled under C10 (R-SHMUT).",
        technique="guarded-return x table check, who-may-write effect scan, definite assignment on CFG",
        trusted_base=["vstat.cfg", "provenance classifier in vstat/rules/cas.py"],
        assumptions=[],
    ),
    "C13": dict(
        title="Expressions, maps and memory behave as values",
        explanation=(
            "Decides the value clause and the pickle clause structurally: (R-OPPURE) operator implementations, eval methods, the "
            "functions in the OP_* tables and _operator.__call__ never store to an attribute of a parameter (including self) or of "
            "an object read out of a parameter, outside the declared mutators; in-place simplification never writes a field of a "
            "child node; (R-SIZEIMM) widths are never re-assigned; (R-SLOTSTATE) __setstate__ restores every slot of the MRO, "
            "__getstate__/__setstate__ keys agree, dict-bearing subclasses of slot-only __setstate__ lose nothing; (R-OWNMERGE) merge() "
            "simplifies (with caller-chosen, possibly widening options) only expressions of maps it created itself. Does NOT decide "
            "equivalence of in-place simplification nor printing/equality after unpickling."
        ),
        rules=[(R_cas.r_oppure, Q), (R_cas.r_aliasret, Q), (R_cas.r_own_mapper, Q), (R_cas.r_sizeimm, Q), (R_cas.r_slotstate, Q), (R_own.r_ownmerge, Q), (R_own.r_mappure, Q), (R_own.r_deepcopy, Q), (R_cas.r_glyph, Q), (R_cas.r_signview, Q)],
        level_text="partial: effect analysis over the 203 non-mutator methods/functions of the expression algebra and slot/state table comparison for the 9 classes with custom pickling",
        level_note="Trusted: receiver provenance classifier; stores on results of eval/slicing/operators (possibly shared, e.g. slc.eval/mem.eval res.sf) are listed as undecided, not alarmed; the save/restore idiom of cst.signextend is accepted.",
        technique="effect (attribute-store) analysis with receiver provenance + table<->table comparison of pickling state",
        trusted_base=["provenance classifier and declared-mutator table in vstat/rules/cas.py"],
        assumptions=[],
    ),
    "C10": dict(
        title="Symbolic results do not depend on analysis history",
        explanation=(
            "Decides the mechanism the property names: code of the architecture layer never mutates a shared expression object "
            "in place and never writes process-global state while decoding or executing symbolically. (R-SHMUT) over every "
            "function of amoco/arch spec/asm/utils/env modules (2750 functions, 1486 semantics): no .sf=/.size=/.v=/.signed()/"
            ".unsigned() on an instruction operand, a module-level register, or what fmap(x) returns for such x, directly or "
            "through a helper summarised as mutating its parameter (cas.utils.AddWithCarry/SubWithBorrow); (R-GLOBALW) nothing "
            "reachable from i_XXX stores to module-level state; (R-REGTYPE) regtype.cur / reg._subrefs writers; plus the "
            "algebra-side aliasing rules R-ALIASRET (comp never hands out itself) and R-OWN (register entries of a mapper are "
            "mapper-owned), R-OWNMERGE (merge never simplifies its callers' maps in place). Does NOT decide leakage through eval paths whose aliasing depends on which rewrite fires."
        ),
        rules=[(R_c10.r_shmut, Q), (R_c10.r_globalw_sem, Q), (R_c10.r_regtype, Q), (R_cas.r_aliasret, Q), (R_cas.r_own_mapper, Q), (R_own.r_ownmerge, Q), (R_own.r_mappure, Q), (R_own.r_deepcopy, Q)],
        level_text="partial (the core clause): alias/provenance analysis of every mutation site in the architecture layer (364 sites) with one-level helper summaries, and a who-may-write scan over the 1596 functions reachable from semantics; tests never evaluate a stored map after unrelated work",
        level_note="Trusted: receiver provenance is classified by syntactic origin (operands element, env-module binding, fmap of those, constructor result); operator results and helper results are 'unknown' and listed as undecided (134 sites), never alarmed. 190 definite sites on the unchanged tree are genuine (118 confirmed by observing the mutation at run time during triage) and are listed as known findings: the sign flag is stored on shared objects by design in this code base.",
        technique="alias/provenance (taint) analysis of attribute stores with one-level interprocedural summaries + who-may-write effect scan",
        trusted_base=["provenance classifier in vstat/rules/c10.py", "vstat.callgraph"],
        assumptions=["module-level bindings of env* modules are shared expression objects"],
    ),
    "C06": dict(
        title="Instruction semantics match the architecture (x86: the CPU, RISC-V: the manual)",
        explanation=(
            "Decides, for RISC-V: (R-ISATAB) the rv32i/rv64i decode tables equal the ISA manual's encoding table "
            "(ref/riscv_base.json): opcode/funct fields, nothing fixed that the ISA leaves variable, rd/rs1/rs2 placement, "
            "immediate bit coverage, concatenation order, scaling and sign; (R-PC) every semantics function advances pc exactly "
            "once on every path and pc-relative semantics read the instruction's own pc; (R-SIGNED) signed/unsigned ordered "
            "comparisons are marked as the manual requires; (R-RAW) sources are read before rd is written. For x86/x64: (R-CCTAB) "
            "the condition-code table used by Jcc/SETcc/CMOVcc has the SDM truth tables (all 32 flag valuations); (R-AUXFLAG) the "
            "auxiliary-carry helper call agrees with the arithmetic helper call of the same function (kind, operands, carry-in); (R-SIZETAB) "
            "size-indexed register tables select registers of the indexing size. Does NOT decide "
            "ALU results, flag formulas, sub-register write rules, memory effects: anything needing a CPU or a reference interpreter."
        ),
        rules=[(R_c06.r_isatab, Q), (R_c06.r_pc, Q), (R_c06.r_signed, Q), (R_c06.r_raw, Q), (R_c06.r_store, Q), (R_c06.r_cctab, Q), (R_c06.r_auxflag, Q), (R_c06.r_sizetab, Q), (R_c06.r_dfstep, Q), (R_c06.r_rvsibling, Q)],
        level_text="partial: table = reference comparison over all 106 shipped RISC-V base specs and 32 condition-code rows, typestate counting of pc stores over the CFG of 74 semantics functions, hazard (read-after-write) scan over 68; the tests decode no RISC-V instruction at all",
        level_note="Trusted: ref/riscv_base.json and ref/x86_cc.json (written from the manuals); vstat.ispecmodel for bit positions; `//` in setup functions is crysp Bits concatenation LSB-first. A base instruction with no shipped spec is listed in the evidence, not alarmed.",
        technique="table = vendored reference comparison, typestate (store counting) on CFG, def-use hazard scan, exhaustive truth-table evaluation of a dict literal",
        trusted_base=["ref/riscv_base.json", "ref/x86_cc.json", "vstat.ispecmodel"],
        assumptions=["x86 semantics other than the condition table are out of static reach"],
    ),
    "C16": dict(
        title="Structure definitions encode, decode and lay out like C",
        explanation=(
            "Decides sibling-agreement clauses of the structure layer: (R-WALK) all six layout walkers of StructCore (size, __len__, "
            "unpack, pack, offset_of, offsets) implement the same alignment-then-advance scheme on every non-union path and pass "
            "psize to every field call; (R-GUARD) hasattr guards test the object that the guarded code then uses; (R-PTYPE) the "
            "pointer-size type-letter translation is one table across the field classes; (R-LEB) the LEB128 reader and writers use "
            "the same group/continuation/sign constants and the signed writer's termination inspects the sign bit. Does NOT decide "
            "agreement with a C compiler for arbitrary definitions nor round-trip equality for all byte strings."
        ),
        rules=[(R_st.r_walk, Q), (R_st.r_guard, Q), (R_st.r_ptype, Q), (R_st.r_leb, Q), (R_st.r_psize, Q), (R_st.r_elemadv, Q), (R_st.r_byteorder, Q)],
        level_text="partial: cross-check of sibling implementations (6 walkers, 7 translation sites, 3 LEB128 functions, 10 hasattr guards) on their CFGs; the struct tests never pack a structure with padding or a bit-field",
        level_note="Trusted: the walker template (cursor = first argument of f.align) and the skip-field idiom (`continue` under a test of the field); cross-class deviations of the pointer-size letter set (VarField/CntField translate only 'P') are listed as undecided because they were not confirmed as defects.",
        technique="sibling cross-check of functions implementing one scheme (path check on statement CFGs + table agreement)",
        trusted_base=["vstat.cfg"],
        assumptions=[],
    ),
    "C14": dict(
        title="Executable-format parsers report what the file encodes",
        explanation=(
            "Decides: (R-STRUCTREF) the ELF structure layouts declared in elf.py -- including the field-list edit scripts applied for "
            "64-bit files, interpreted statement by statement -- equal the Elf32_/Elf64_ layouts of <elf.h> (16 layouts, vendored gcc "
            "offsetof/sizeof table); (R-RECTAB) the S-record address-width table and the HEX/SREC record-type constants equal the "
            "published formats; (R-CKSUM) record checksums control rejection on every path; (R-ENTRY) the entry point is stored in "
            "the attribute the entrypoints property returns; (R-UNION) a query result that may be a section or a program header is "
            "not used with a field of only one of them, and guarded copies are the ones used; (R-TABWALK) the 24 table-walking loops advance their cursor on every path that reads an entry; (R-GEOM) the table geometry fields a file declares flow into read positions / loop bounds of the ELF and PE constructors; (R-NAME/R-PRIV) no unresolved name "
            "or never-stored private attribute in the 264 functions of the format modules. Does NOT decide values parsed from "
            "arbitrary files, symbol-name decoding, offset arithmetic over tables; PE and Mach-O layouts are not compared (no "
            "reference header available offline)."
        ),
        rules=[(R_fm.r_structref_elf, Q), (R_fm.r_rectab, Q), (R_fm.r_cksum, Q), (R_fm.r_entry, Q), (R_fm.r_union, Q), (R_fm.r_purequery, Q), (R_fm.r_tabwalk, Q), (R_fm.r_geom, Q), (R_fm.r_name_formats, Q), (R_fm.r_priv_formats, Q), (R_fm.r_structsize, Q), (R_fm.r_oradd, Q), (R_c20.r_truthyio, Q)],
        level_text="partial: table = reference comparison for all 16 ELF layouts (with symbolic interpretation of the 64-bit edit scripts), CFG must-raise check of the two checksum comparisons, scope/attribute checks over every function of the six format modules; the tests open 8 sample files and never a corrupted record or a 64-bit note",
        level_note="Trusted: vstat.structmodel (StructDefine language read from its docstring, natural-alignment layout, the closed set of edit idioms: any other statement on `fields` makes the class undecided); ref/elf_layout.json generated from /usr/include/elf.h with gcc (generator committed); ref/records.json hand-written.",
        technique="table = vendored reference comparison with an interpreter of field-list edit scripts; must-raise on CFG; scope resolution",
        trusted_base=["vstat.structmodel", "ref/elf_layout.json", "ref/records.json"],
        assumptions=[],
    ),
    "C20": dict(
        title="Program identification is total and reports only format errors",
        explanation=(
            "Decides the explicit error discipline and termination shape of the identification chain: (R-RAISE) for each of the six "
            "`try: p = Fmt(f)` of read_program, the interprocedural explicit may-raise set of Fmt's constructor (raise/assert sites of "
            "~90 resolved callees, minus what is caught at each call site) is included in that try's handler tuple, read from the AST "
            "on every run; (R-WRAP) StructCore.unpack and its overrides convert every field-decoding error into StructureError with a "
            "catch-all handler; (R-PROGRESS) cursor-driven while loops whose step is read from the file reject a zero step; "
            "(R-TABWALK) table walkers advance on every path; (R-PRIV/R-NAME) no never-stored private attribute or unresolved name "
            "in the format modules. Does NOT decide implicit exceptions from corrupted values (IndexError, KeyError, TypeError), "
            "wall-time, or cross-format exclusivity."
        ),
        rules=[(R_c20.r_raise, Q), (R_c20.r_wrap, Q), (R_c20.r_progress, Q), (R_fm.r_tabwalk, Q), (R_fm.r_rectab, Q), (R_fm.r_name_formats, Q), (R_fm.r_priv_formats, Q), (R_c20.r_truthyio, Q)],
        level_text="partial: interprocedural may-raise (explicit) effect analysis over the call graph of the six format constructors, contract check of the unpack overrides, loop-progress shape check; the tests only open well-formed samples",
        level_note="Trusted: by-name callee resolution (constructors, self.method through the by-name MRO, module functions); implicit exceptions of unresolved callees are out of scope except through R-WRAP's catch-all requirement; one single-symbol exemption (MachO.__read_symtab NotImplementedError: magic already checked) is listed with its reason in RAISE_EXEMPT.",
        technique="interprocedural may-raise effect analysis + handler-contract and loop-progress shape checks on the AST",
        trusted_base=["vstat.callgraph", "exception hierarchy by class name (repo classes + builtins)"],
        assumptions=["`assert` counts as AssertionError (python -O is not used)"],
    ),
    "C15": dict(
        title="A loaded program's memory image equals the file's mapping",
        explanation=(
            "Decides structural necessary conditions of the image clause and the entry-point clause: (R-SEGIMG) every loadsegment "
            "(ELF, PE, Mach-O) derives the image from both the file-size and the memory-size field of its segment type and pads "
            "with an explicit zero byte; (R-LOADPC) each of the 12 OS loaders stores <bin>.entrypoints[0] into the task state, "
            "unconditionally up to the kind of load command; (R-ENTRY) the entrypoints property of every format class returns the "
            "attribute its constructor stores; (R-GEOM/R-TABWALK) segment tables are located and walked with the geometry the "
            "file declares. Does NOT decide byte equality of the whole image, relocation slots, page arithmetic, instruction fetch."
        ),
        rules=[(R_fm.r_segimg, Q), (R_fm.r_loaderpc, Q), (R_fm.r_entry, Q), (R_fm.r_purequery, Q), (R_fm.r_geom, Q), (R_fm.r_tabwalk, Q), (R_fm.r_oradd, Q)],
        level_text="partial: must-use (def-use) checks on the three loadsegment implementations and all 12 OS loaders; the loader tests check entry points of three samples and never the zero-filled tail of a segment",
        level_note="Trusted: attribute names identify the file-size / memory-size fields (p_filesz/p_memsz, SizeOfRawData/VirtualSize, filesize/vmsize); one-level helper resolution (self.readsegment).",
        technique="must-use / must-flow (def-use) rules over the AST of the loaders",
        trusted_base=["field-name table SEGIMG in vstat/rules/formats.py"],
        assumptions=[],
    ),
    "C18": dict(
        title="Sweeps, blocks and control-flow graphs partition the code",
        explanation=(
            "Decides the sweep/block half structurally: (R-SWEEP) in lsweep.sequence the cursor is advanced exactly once between two "
            "fetches, by the fetched instruction's length, and the instruction is yielded exactly once; the sweep API keeps no "
            "state on self; (R-XFER) lsweep.iterblocks appends every swept instruction to the current block on every path, yields "
            "every block it builds, flushes the tail, and clears the delay-slot flag when a block is closed; block.__getitem__ "
            "records every instruction boundary; block.length/raw/support/address are derived from the instruction list only. "
            "Does NOT decide disjointness/coverage of cfg.graph's support for all insertion orders (MemoryZone arithmetic on node lengths)."
        ),
        rules=[(R_cc.r_sweep, Q), (R_cc.r_blocks, Q), (R_cc.r_addvertex, Q)],
        level_text="partial: path counting and must-pass-through on the CFGs of lsweep.sequence / iterblocks / block.__getitem__; the two code tests sweep one x86 sample and never a delay-slot ISA",
        level_note="Trusted: the fetch statement is the assignment from read_instruction; accumulators are found by the append of the loop variable. The graph-insertion clause (add_vertex / __cut_add_vertex) is not claimed.",
        technique="def-use counting on loop paths + must-pass-through on statement CFGs",
        trusted_base=["vstat.cfg", "vstat/rules/xfer.py"],
        assumptions=[],
    ),
    "C19": dict(
        title="Merging two maps over-approximates both",
        explanation=(
            "Decides that the join never drops a location or an alternative: (R-XFER) both loops of merge() store, on every path, "
            "a value whose reaching-definition closure contains the loop's own value and the other map's read for that location (or "
            "top); the second loop skips only on the membership test of the merged map; vec-based pointers are expanded with "
            "their segment and displacement; vec.simplify drops an alternative only as a duplicate or by returning an undefined/"
            "top value; (R-ABSORB) in vec.simplify an undefined alternative is returned itself and can never reach the statements that "
            "rebuild the list of alternatives. Does NOT decide membership of evaluated results for all states (needs values)."
        ),
        rules=[(R_cc.r_merge, Q), (R_own.r_vecabsorb, Q), (R_cas.r_glyph, Q)],
        level_text="partial: path enumeration of the four transfer loops and reaching-definition closure of the stored value; the single merge test joins two register-only maps",
        level_note="Trusted: vstat/rules/xfer.py (sink / dedup-test recognition), vstat.cfg reaching definitions; value-level clauses (which alternatives evaluate to what) are out of reach.",
        technique="path enumeration of transfer loops + reaching-definitions (def-use) closure",
        trusted_base=["vstat.cfg", "vstat/rules/xfer.py"],
        assumptions=[],
    ),
}

# ---------------------------------------------------------------------------------------------------------------------------
# C04 and C07: claimed in the second build session for the clauses that are visible in code shape (DESIGN.md 9.12)
from .rules import c04 as R_c04
from .harness import scoped

_X86 = ("amoco/arch/x86/", "amoco/arch/x64/")
PROPS["C04"] = dict(
    title="Decoder index is equivalent to a most-constrained-first scan",
    explanation=(
        "Does NOT decide the equivalence of the tree with the linear scan over all byte strings.  Decides the construction invariants "
        "without which the tree cannot be a faithful index (each a necessary condition): (R-INDEX) ORDER - setup sorts its list by "
        "mask weight, descending, with a stable sort and fills leaves in that order; SPLIT - a node's mask is the AND of the adjusted "
        "masks of all its specs; KEY - specs are filed under adjust(fix) & mask, the node is labelled with that mask, __call__ looks "
        "up word & label; ADJUST - the endianness justification is the same function (and width) in setup and __call__; LEAF - no "
        "break leaves the leaf scan and a rejecting spec continues with the next; RECURSE - every bucket is organised by setup. "
        "(R-HANDLERS) the scan's handlers still absorb DecodeError and InstructionError; (R-RESET) the pending prefix is dropped on "
        "every exit, so the recursion on prefixes starts clean."
    ),
    rules=[(R_c04.r_index, Q), (R_c04.r_treero, Q), (R_c11.r_reset, Q)],
    level_text="partial (necessary conditions only): writer/reader agreement and ordering invariants of the two functions that build and walk the index; the tests decode ~150 byte strings through it",
    level_note="Trusted: recognition of the sort call, the reduce / &= form of the split mask, the filing statement and the look-up; unrecognised forms are undecided, not alarmed.  A comparison of the tree against a linear scan for all words needs values and is not attempted.",
    technique="sibling (writer/reader) agreement + ordering / must-not-exit checks on the AST and CFG of two functions",
    trusted_base=["vstat/rules/c04.py pattern recognition", "vstat.cfg"],
    assumptions=["list.sort / sorted are stable (Python language guarantee)"],
)
PROPS["C07"] = dict(
    title="x86/x64 instruction boundaries agree with reference disassemblers",
    explanation=(
        "Does NOT compare with binutils / LLVM (no reference is available offline and lengths are runtime values).  Decides the "
        "self-consistency clauses every agreement on instruction length presupposes, restricted to amoco/arch/x86 and amoco/arch/x64: "
        "(R-PAIR) every piece consumed from the variable tail is appended to the instruction bytes on every path, in input order, so "
        "length == bytes consumed; (R-TAILCHK) every bounded tail slice is dominated by a length test against the same bound, so a "
        "length never counts bytes that were not there; (R-OVERGUARD) a length requirement is made only on paths that consume; "
        "(R-MAXLEN) no x86/x64 spec exceeds the architectural 15-byte window assumptions of the decoder; (R-RESET / R-ROLLBACK) the "
        "prefix accumulator is dropped on every exit and rejected specs leave no bytes behind, so a boundary never inherits bytes of "
        "an earlier instruction; (R-MISCNONE) prefix state is tested before it is indexed."
    ),
    rules=[
        (scoped(R_c05.r_pair, _X86, "x86"), Q),
        (scoped(R_c05.r_tailchk, _X86, "x86"), Q),
        (scoped(R_c05.r_overguard, _X86, "x86"), Q),
        (R_c11.r_reset, Q),
        (R_c11.r_rollback, Q),
        (scoped(R_c17.r_miscnone_c17, _X86, "x86"), Q),
    ],
    level_text="partial (necessary conditions only): consumed == recorded, guarded slices and prefix-state hygiene over the ~420 tail-taking x86/x64 setup functions and helpers; no reference disassembler is consulted",
    level_note="Trusted: tail-variable tracking of vstat/rules/c05.py; immediate sizes, ModRM/SIB forms and opcode maps themselves are values and are not decided.",
    technique="pairing / dominance (must-pass-through) checks on statement CFGs, restricted to the x86/x64 decoders",
    trusted_base=["vstat/rules/c05.py", "vstat.cfg"],
    assumptions=[],
)

# ---------------------------------------------------------------------------------------------------------------------------
# R-BOUNDARY: the reviewed table of boundary comparisons (ref/boundaries.json) contributes rows to these properties
from .rules import boundary as R_bd

for _pid in sorted({p for r in R_bd.load_table() for p in r["properties"]}):
    if _pid in PROPS:
        PROPS[_pid]["rules"].append((R_bd.r_boundary(_pid), Q))
        PROPS[_pid]["explanation"] += (
            " (R-BOUNDARY) the reviewed boundary comparisons of this property (ref/boundaries.json: function, expected comparison, "
            "reason) are still made, compared as integer partitions after linear normalisation -- decides where the half-open ranges "
            "end, not the behaviour on either side."
        )
        PROPS[_pid]["trusted_base"] = list(PROPS[_pid]["trusted_base"]) + ["ref/boundaries.json (rows confirmed by reading, one reason each)"]

# ---------------------------------------------------------------------------------------------------------------------------
# R-HANDLERS: the handler inventory (ref/handlers.json) contributes rows to these properties
from .rules import handlers as R_hd

for _pid in sorted({p for ps in R_hd.FILE_PROPS.values() for p in ps}):
    if _pid in PROPS:
        PROPS[_pid]["rules"].append((R_hd.r_handlers(_pid), Q))
        PROPS[_pid]["explanation"] += (
            " (R-HANDLERS) the try statements of this property's files still catch every exception class recorded for them in "
            "ref/handlers.json (handlers may be widened, not narrowed)."
        )
        PROPS[_pid]["trusted_base"] = list(PROPS[_pid]["trusted_base"]) + ["ref/handlers.json (inventory of the reviewed tree)"]

# ---------------------------------------------------------------------------------------------------------------------------
# R-DEFAULTS: the default-argument inventory (ref/defaults.json)
from .rules import defaults as R_df

for _pid in sorted({p for ps in R_df.FILE_PROPS.values() for p in ps}):
    if _pid in PROPS:
        PROPS[_pid]["rules"].append((R_df.r_defaults(_pid), Q))
        PROPS[_pid]["explanation"] += (
            " (R-DEFAULTS) the default arguments of this property's core API still have the values recorded in ref/defaults.json."
        )
        PROPS[_pid]["trusted_base"] = list(PROPS[_pid]["trusted_base"]) + ["ref/defaults.json (inventory of the reviewed tree)"]

# ---------------------------------------------------------------------------------------------------------------------------
# generic maintenance-slip rules (rules/generic.py), scoped to each property's files
from .rules import generic as R_gen

_GEN = {
    "R-MEMOKEY": (R_gen.r_memokey, ["C03", "C05", "C10", "C11", "C13", "C14", "C15", "C16", "C18"]),
    "R-MUTDEFAULT": (R_gen.r_mutdefault, ["C10", "C11", "C13", "C16", "C17", "C18", "C20"]),
    "R-GENARG": (R_gen.r_genarg, ["C12", "C13", "C19"]),
    "R-SHAREMUT": (R_gen.r_sharemut, ["C08", "C10", "C13"]),
    "R-TRUTHYBOUND": (R_gen.r_truthybound, ["C12", "C14", "C15", "C20"]),
}
for _name, (_mk, _pids) in _GEN.items():
    for _pid in _pids:
        if _pid in PROPS:
            PROPS[_pid]["rules"].append((_mk(_pid), Q))
for _pid in sorted({p for _, ps in _GEN.values() for p in ps}):
    if _pid in PROPS:
        PROPS[_pid]["explanation"] += (
            " Generic maintenance-slip rules over this property's files: memo keyed by every parameter its value depends on "
            "(R-MEMOKEY), no mutable default argument (R-MUTDEFAULT), no one-shot iterator passed where it is kept or re-iterated "
            "(R-GENARG), no list/dict attribute handed over by reference to a derived object (R-SHAREMUT), no slice bound tested by "
            "truthiness (R-TRUTHYBOUND) -- whichever apply."
        )

# ---------------------------------------------------------------------------------------------------------------------------
# R-WIDTHFLOW: bit-width inference over the semantic functions
from .rules import widthflow as R_wf

for _pid in ("C06", "C12", "C17"):
    PROPS[_pid]["rules"].append((R_wf.r_widthflow(("amoco/arch/",), "arch"), Q))
    PROPS[_pid]["explanation"] += " (R-WIDTHFLOW) bit-width inference over the ~1570 semantic functions: where two certain widths must agree (tst branches, operands of + - & | ^, fmap[loc] = v) they do, also along each reaching definition of a local."

# ---------------------------------------------------------------------------------------------------------------------------
# R-X86SIB: x86/x64 sibling functions recorded in ref/x86_siblings.json
for _pid in ("C05", "C06", "C07", "C17"):
    PROPS[_pid]["rules"].append((R_c06.r_x86sibling(_pid), Q))
    PROPS[_pid]["explanation"] += " (R-X86SIB) x86/x64 sibling functions that were identical up to register names still are, when their statement structure is unchanged."
    PROPS[_pid]["trusted_base"] = list(PROPS[_pid]["trusted_base"]) + ["ref/x86_siblings.json (inventory of the reviewed tree)"]
