"""Self-test: apply each catalogued mutant to a scratch copy of /repo/amoco (outside /repo and
/verif), run the property's check against it, and compare with the expectation:
  breaking mutants must give exit 1 and name the instance; benign mutants must give exit 0.
Scratch copies are removed as soon as their check has run."""
import os
import shutil
import subprocess
import sys
import tempfile
import json
from concurrent.futures import ThreadPoolExecutor

from . import REPO, VERIF


def _run_one(mut):
    name, pid, rel, old, new, expect, needle = mut
    tmp = tempfile.mkdtemp(prefix="vstat-selftest-")
    try:
        dst = os.path.join(tmp, "amoco")
        shutil.copytree(os.path.join(REPO, "amoco"), dst, ignore=shutil.ignore_patterns("__pycache__", "*.pyc"))
        p = os.path.join(tmp, rel)
        src = open(p, encoding="utf-8").read()
        if old is not None:
            cnt = src.count(old)
            if cnt != 1:
                return (name, pid, "SELFTEST-ERROR", "pattern occurs %d times in %s (mutant needs updating)" % (cnt, rel))
            src = src.replace(old, new)
            open(p, "w", encoding="utf-8").write(src)
            # still compiles?
            try:
                compile(src, p, "exec")
            except SyntaxError as e:
                return (name, pid, "SELFTEST-ERROR", "mutant does not compile: %s" % e)
        env = dict(os.environ)
        env["VERIF_REPO"] = tmp
        env["VERIF_EVIDENCE_DIR"] = os.path.join(tmp, "evidence")
        r = subprocess.run([sys.executable, "-m", "vstat", "check", pid, "--tier", "quick"], cwd=VERIF, env=env, capture_output=True, text=True)
        outp = r.stdout + r.stderr
        if expect == "fire":
            ok = r.returncode == 1 and "VIOLATION property=%s" % pid in outp and (needle is None or needle in outp)
        else:
            ok = r.returncode == 0 and "VIOLATION" not in outp
        detail = ""
        if not ok:
            lines = [l for l in outp.splitlines() if l.startswith(("REPORT", "VIOLATION", "ANALYSIS", "Traceback")) or l.startswith(pid)]
            detail = "rc=%d; %s" % (r.returncode, " | ".join(lines[:4])[:600])
        return (name, pid, "ok" if ok else "FAIL", detail)
    finally:
        shutil.rmtree(tmp, ignore_errors=True)


def run_selftest(jobs=16, only=None):
    from .mutants import MUTANTS

    muts = [m for m in MUTANTS if only is None or only in m[0] or only == m[1]]
    bad = 0
    with ThreadPoolExecutor(max_workers=jobs) as ex:
        for name, pid, status, detail in ex.map(_run_one, muts):
            print("%-14s %-4s %-48s %s" % (status, pid, name, detail))
            if status != "ok":
                bad += 1
    print("selftest: %d mutants, %d not as expected" % (len(muts), bad))
    return 1 if bad else 0
