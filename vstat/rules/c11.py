"""C11: decoding has no memory of earlier calls.

R-RESET    typestate on the CFG (with exception edges) of disassembler.__call__
R-ROLLBACK ispec.decode undoes its byte append / attribute sets when the hook rejects
R-GLOBALW  decode-time code (hooks, preconditions and what they reach) writes no module-level state
"""
import ast
import re

from ..cfg import CFG, _walk_no_nested
from ..harness import RuleOut
from ..index import AnalysisError, norm
from ..callgraph import CallGraph
from ..scopes import local_bindings

CORE = "amoco/arch/core.py"

# calls inside disassembler.__call__ that are trusted not to raise (configuration lambdas,
# crysp Bits, dict.get, codecs, logger); everything else is assumed to be able to raise.
NORAISE_CALLEES = {
    "self.endian": "endianness configuration lambda supplied by the cpu module",
    "self.iset": "instruction-set selector lambda supplied by the cpu module",
    "Bits": "crysp bit-vector constructor on a bytes slice",
    "adjust": "local lambda doing integer shifts",
    "l.get": "dict.get",
    "codecs.encode": "hex rendering of a bytes object for the log",
    "logger.debug": "logging",
    "logger.info": "logging",
    "logger.verbose": "logging",
    "logger.warning": "logging",
    "logger.error": "logging",
}


def _private_attr(node, name):
    """is node `self.__name` (as written inside the class)?"""
    return isinstance(node, ast.Attribute) and node.attr == name and isinstance(node.value, ast.Name) and node.value.id == "self"


def pending_attr(cls):
    """name of the pending-instruction attribute: the private attribute initialised to None in
    __init__ and passed as `i=` to decode."""
    call = cls.methods.get("__call__") if not isinstance(cls, ast.AST) else None
    if call is None and not isinstance(cls, ast.AST):
        raise AnalysisError("anchor vanished: disassembler.__call__")
    for n in ast.walk(call.node if call is not None else cls):
        if isinstance(n, ast.Call) and isinstance(n.func, ast.Attribute) and n.func.attr == "decode":
            for k in n.keywords:
                if k.arg == "i" and isinstance(k.value, ast.Attribute) and isinstance(k.value.value, ast.Name) and k.value.value.id == "self":
                    return k.value.attr
    raise AnalysisError("cannot identify the pending-prefix attribute passed as i= to ispec.decode in disassembler.__call__")


def _always_calls_self(stmt):
    """does evaluating the statement always call `self(..)`?  (not under a conditional expression arm, the later operands of
    and/or, a comprehension or a lambda)"""
    def walk(e):
        if isinstance(e, ast.Call) and isinstance(e.func, ast.Name) and e.func.id == "self":
            return True
        if isinstance(e, ast.IfExp):
            return walk(e.test)
        if isinstance(e, ast.BoolOp):
            return walk(e.values[0])
        if isinstance(e, (ast.Lambda, ast.ListComp, ast.SetComp, ast.DictComp, ast.GeneratorExp, ast.FunctionDef, ast.ClassDef)):
            return False
        return any(walk(c) for c in ast.iter_child_nodes(e))
    return walk(stmt)


def r_reset(repo, tier):
    out = RuleOut(
        "R-RESET",
        "disassembler.__call__: on every exit (return, fall-off, exception edge of any call outside the stated no-raise "
        "trusted base) the pending-prefix attribute has been reset to None on the path since it may last have been "
        "non-None; the only exempt exit is the tail call into itself after a prefix spec",
    )
    m = repo.mod(CORE)
    cls = m.classes.get("disassembler")
    if cls is None:
        raise AnalysisError("anchor vanished: class disassembler")
    f = repo.func(CORE, "disassembler.__call__")
    attr = pending_attr(f.node)

    from ..inline import _known

    def _helper(fn_expr):
        """a helper of the class / module written after the review (not in ref/functions.json), named by fn_expr"""
        g = None
        if isinstance(fn_expr, ast.Attribute) and isinstance(fn_expr.value, ast.Name) and fn_expr.value.id in ("self", "cls", "disassembler"):
            g = cls.methods.get(fn_expr.attr)
        elif isinstance(fn_expr, ast.Name):
            g = m.functions.get(fn_expr.id)
            if g is not None and g.cls is not None:
                g = None
        if g is None or (g.mod.rel, g.dqual) in _known():
            return None
        return g

    summarising = set()

    def quiet_helper(g):
        """no statement of the helper can raise, by the same trusted base (a summary, computed on demand)"""
        if g.key in summarising:
            return False
        summarising.add(g.key)
        try:
            return not any(may_raise(st) for st in ast.walk(g.node) if isinstance(st, ast.stmt) and st is not g.node and not isinstance(st, (ast.FunctionDef, ast.If, ast.While, ast.For, ast.Try, ast.With))) \
                and not any(may_raise(getattr(st, "test", None) or getattr(st, "iter", None)) for st in ast.walk(g.node) if isinstance(st, (ast.If, ast.While, ast.For)))
        finally:
            summarising.discard(g.key)

    def returns_quiet_lambdas(g):
        rets = [r for r in ast.walk(g.node) if isinstance(r, ast.Return)]
        return bool(rets) and all(isinstance(r.value, ast.Lambda) and not any(isinstance(c, ast.Call) for c in ast.walk(r.value.body)) for r in rets)

    def local_quiet_lambda(name):
        binds = [a for a in ast.walk(f.node) if isinstance(a, ast.Assign) and any(isinstance(t, ast.Name) and t.id == name for t in a.targets)]
        return bool(binds) and all(isinstance(a.value, ast.Lambda) and not any(isinstance(c, ast.Call) for c in ast.walk(a.value.body)) for a in binds)

    def may_raise(node):
        if node is None:
            return False
        if isinstance(node, ast.Raise):
            return True
        if isinstance(node, ast.Assert):
            return True
        for n in _walk_no_nested(node):
            if isinstance(n, ast.Call):
                callee = re.sub(r"__inl\d+", "", norm(n.func))
                if callee in NORAISE_CALLEES:
                    continue
                # helpers written after the review are summarised with the same trusted base
                g = _helper(n.func)
                if g is not None and quiet_helper(g):
                    continue
                # the integer-shift lambda, whatever it is called and wherever it is built
                if isinstance(n.func, ast.Name) and local_quiet_lambda(n.func.id):
                    continue
                if isinstance(n.func, ast.Call):
                    g = _helper(n.func.func)
                    if g is not None and returns_quiet_lambdas(g):
                        continue
                if callee == "self":  # tail recursion: its own exits are covered inductively
                    continue
                # dict.get on a local (a node of the spec tree), whatever the local is called
                if isinstance(n.func, ast.Attribute) and n.func.attr == "get" and isinstance(n.func.value, ast.Name) and n.func.value.id not in ("self",):
                    continue
                return True
        return False

    cfg = CFG(f.node, may_raise=may_raise)

    # state: 'C' pending attr is None for sure; 'D' may be non-None.  entry = D (recursion enters with it set)
    def transfer(node, st, label):
        s = node.ast
        new = st
        if node.kind in ("stmt",) and isinstance(s, ast.Assign):
            for t in s.targets:
                if _private_attr(t, attr):
                    new = "C" if (isinstance(s.value, ast.Constant) and s.value.value is None) else "D"
        if s is not None and node.kind in ("stmt", "return") and _always_calls_self(s):
            # the call into itself after a prefix: by induction on the recursion every exit of the inner call has reset the attribute
            return "C"
        if label == "exc":
            # the statement did not complete: an assignment to the attribute did not happen
            return st
        # branch refinement: `if self.__i is None:` true-branch
        if node.kind == "test" and isinstance(s, (ast.If, ast.While)):
            t = s.test
            if isinstance(t, ast.Compare) and len(t.ops) == 1 and _private_attr(t.left, attr) and isinstance(t.comparators[0], ast.Constant) and t.comparators[0].value is None:
                if isinstance(t.ops[0], ast.Is) and label == "t":
                    return "C"
                if isinstance(t.ops[0], ast.IsNot) and label == "f":
                    return "C"
        return new

    def join(a, b):
        return "D" if "D" in (a, b) else "C"

    ins = cfg.forward("D", transfer, join)
    n_exits = 0
    for node in cfg.nodes:
        for succ, lab in cfg.succ[node.id]:
            if succ.id not in (cfg.exit.id, cfg.raise_.id):
                continue
            if node.id not in ins:
                continue  # unreachable
            st = transfer(node, ins[node.id], lab)
            kind = "return" if succ is cfg.exit else "exception"
            # exempt: tail call into itself
            tail = False
            if node.kind == "return" and isinstance(node.ast.value, ast.Call) and norm(node.ast.value.func) == "self" and succ is cfg.exit:
                tail = True
            n_exits += 1
            key = "%s::L-exit::%s::%s" % (f.key, kind, norm(node.ast)[:80] if node.ast is not None else node.kind)
            out.inst(key, {"exit": kind, "at": "%s:%d" % (f.file, node.line), "stmt": norm(node.ast)[:100] if node.ast is not None else node.kind, "state": "tail-call" if tail else st})
            if tail:
                continue
            if st != "C":
                # find the path for the report
                out.report(
                    f.file,
                    f.dqual,
                    "%s exit at: %s" % (kind, norm(node.ast)[:120] if node.ast is not None else "<fall off>"),
                    node.line,
                    "self.%s may still hold a pending prefix instruction when __call__ leaves by %s at line %d (next decode call would continue it)" % (attr, kind, node.line),
                    {"attr": attr},
                )
    out.stats["exits"] = n_exits
    out.stats["cfg_nodes"] = len(cfg.nodes)
    if n_exits < 3:
        raise AnalysisError("R-RESET: only %d exits found in disassembler.__call__" % n_exits)
    # who-may-write: the attribute is stored only in __init__, __call__ and the private helpers __call__ expands into
    from ..inline import helpers_of

    raw_call = getattr(f, "raw", None) or f
    allowed = {"__init__", "__call__"} | {h.name for h in helpers_of(repo, raw_call) if h.cls is cls}
    for meth in cls.methods.values():
        for n in ast.walk(meth.node):
            if isinstance(n, ast.Attribute) and isinstance(n.ctx, ast.Store) and n.attr == attr and meth.name not in allowed:
                out.report(f.file, meth.dqual, "store self.%s" % attr, n.lineno, "pending-prefix attribute written outside __init__/__call__")
    return out


def r_rollback(repo, tier):
    out = RuleOut(
        "R-ROLLBACK",
        "ispec.decode: the byte append on a pending instruction and the attribute sets made before calling the setup "
        "function are undone on the rejection path (handler of InstructionError restores .bytes from a value saved "
        "before/at the append and deletes the same attribute key set it set), and precondition+hook calls are inside that try",
    )
    f = repo.func(CORE, "ispec.decode")
    fn = f.node
    # the instruction parameter
    ivar = "i"
    appends = [n for n in ast.walk(fn) if isinstance(n, ast.AugAssign) and isinstance(n.target, ast.Attribute) and n.target.attr == "bytes" and isinstance(n.op, ast.Add)]
    out.inst(f.key + "::append", {"appends": [norm(a) for a in appends]})
    if not appends:
        raise AnalysisError("R-ROLLBACK: no `<ins>.bytes += ...` found in ispec.decode (anchor changed)")
    recv = norm(appends[0].target.value)
    # try statements with an InstructionError (or catch-all) handler
    tries = []
    for n in ast.walk(fn):
        if isinstance(n, ast.Try):
            for h in n.handlers:
                names = [] if h.type is None else [norm(e) for e in (h.type.elts if isinstance(h.type, ast.Tuple) else [h.type])]
                if h.type is None or "InstructionError" in names or "Exception" in names:
                    tries.append((n, h))
    # hook / precond call sites
    calls = []
    for n in ast.walk(fn):
        if isinstance(n, ast.Call) and isinstance(n.func, ast.Attribute) and n.func.attr in ("hook", "precond") and norm(n.func.value) == "self":
            calls.append(n)
    if len(calls) < 2:
        raise AnalysisError("R-ROLLBACK: hook/precond calls not found in ispec.decode")
    for c in calls:
        inside = None
        for t, h in tries:
            if any(c is x for b in t.body for x in ast.walk(b)):
                inside = (t, h)
        out.inst(f.key + "::call::" + norm(c.func), {"call": norm(c)[:80], "guarded": inside is not None})
        if inside is None:
            out.report(f.file, f.dqual, "unguarded %s" % norm(c.func), c.lineno, "setup-function/precondition call is outside the try whose InstructionError handler rolls the instruction back")
            continue
        t, h = inside
        restores = [n for s in h.body for n in ast.walk(s) if isinstance(n, ast.Assign) and any(isinstance(x, ast.Attribute) and x.attr == "bytes" and norm(x.value) == recv for x in n.targets)]
        if not restores:
            out.report(f.file, f.dqual, "handler of %s lacks %s.bytes restore" % (norm(c.func), recv), h.lineno, "rejection path does not restore the instruction bytes: a rejected spec leaves its bytes appended to the pending prefix instruction")
        else:
            # restored value must be a name assigned from <recv>.bytes (slice) in this function
            v = restores[0].value
            ok = False
            if isinstance(v, ast.Name):
                for n in ast.walk(fn):
                    if isinstance(n, ast.Assign) and any(isinstance(x, ast.Name) and x.id == v.id for x in n.targets):
                        if any(isinstance(y, ast.Attribute) and y.attr == "bytes" and norm(y.value) == recv for y in ast.walk(n.value)):
                            ok = True
            out.inst(f.key + "::restore", {"restore": norm(restores[0]), "from_saved_bytes": ok})
            if not ok:
                out.report(f.file, f.dqual, "restore %s" % norm(restores[0]), restores[0].lineno, "restored value is not derived from the instruction's own saved bytes")
            elif isinstance(v, ast.Name):
                # the snapshot is either taken before the append, or cut back by exactly the bytes that were appended
                appended = {norm(a.value) for a in appends}
                # a name that was appended also stands for its single definition (the second view resolves definitions)
                for a in appends:
                    if isinstance(a.value, ast.Name):
                        ds = [d for d in ast.walk(fn) if isinstance(d, ast.Assign) and len(d.targets) == 1 and isinstance(d.targets[0], ast.Name) and d.targets[0].id == a.value.id]
                        if len(ds) == 1:
                            appended.add(norm(ds[0].value))
                for n in ast.walk(fn):
                    if isinstance(n, ast.Assign) and any(isinstance(x, ast.Name) and x.id == v.id for x in n.targets):
                        sv = n.value
                        shape = "other"
                        if isinstance(sv, ast.Subscript) and isinstance(sv.slice, ast.Slice) and norm(sv.value) == "%s.bytes" % recv:
                            sl = sv.slice
                            if sl.lower is None and sl.upper is None:
                                shape = "whole"
                            elif sl.lower is None and sl.step is None and isinstance(sl.upper, ast.UnaryOp) and isinstance(sl.upper.op, ast.USub) and isinstance(sl.upper.operand, ast.Call) and norm(sl.upper.operand.func) == "len" and sl.upper.operand.args and norm(sl.upper.operand.args[0]) in appended:
                                shape = "cut-by-appended"
                            else:
                                shape = "cut-by-other"
                        elif norm(sv) in ("%s.bytes" % recv, "bytes(%s.bytes)" % recv):
                            shape = "whole"
                        out.inst(f.key + "::snapshot", {"snapshot": norm(n), "shape": shape, "appended": sorted(appended)})
                        if shape == "cut-by-other":
                            out.report(f.file, f.dqual, "snapshot %s" % norm(n), n.lineno, "the saved bytes are cut back by `%s`, not by the length of what was appended (%s): for variable-length specs (size 0) or any other bound the rollback removes the wrong bytes of a pending prefix instruction" % (norm(sv.slice), ", ".join(sorted(appended))))
                        elif shape == "whole" and n.lineno > min(a.lineno for a in appends):
                            out.report(f.file, f.dqual, "snapshot %s" % norm(n), n.lineno, "the bytes are saved after the append, so the rollback restores the appended bytes as well")
                        elif shape == "other":
                            out.undecide(f.file, f.dqual, norm(n), "snapshot expression not recognised")
        # attribute set / delete symmetry
        sets = [n for n in ast.walk(fn) if isinstance(n, ast.For) and any(isinstance(x, ast.Call) and norm(x.func) == "setattr" for b in n.body for x in ast.walk(b))]
        dels = [n for s in h.body for n in ast.walk(s) if isinstance(n, ast.For) and any(isinstance(x, ast.Call) and norm(x.func) == "delattr" for b in n.body for x in ast.walk(b))]
        if sets:
            def src(fr):
                # the dict iterated: strip iter(), .items(), .keys()
                e = fr.iter
                while True:
                    if isinstance(e, ast.Call) and isinstance(e.func, ast.Name) and e.func.id == "iter" and e.args:
                        e = e.args[0]
                    elif isinstance(e, ast.Call) and isinstance(e.func, ast.Attribute) and e.func.attr in ("items", "keys"):
                        e = e.func.value
                    elif isinstance(e, ast.Call) and e.args and isinstance(e.args[0], ast.Attribute) and isinstance(e.args[0].value, ast.Name) and e.args[0].value.id == "self":
                        e = e.args[0]  # self._extract(self.iattr, bits): a helper iterating the same dict
                    else:
                        return norm(e)
            sset = {src(x) for x in sets}
            sdel = {src(x) for x in dels}
            out.inst(f.key + "::attrs", {"set_over": sorted(sset), "deleted_over": sorted(sdel)})
            if not sset <= sdel:
                out.report(f.file, f.dqual, "delattr loop over %s" % sorted(sset - sdel), h.lineno, "attributes set from %s before the hook are not deleted on the rejection path" % sorted(sset - sdel))
    return out


# ---------------------------------------------------------------------------------------
def global_writes(repo, f, modnames_cache={}):
    """stores to module-level state inside function f: list of (node, description)."""
    res = []
    loc = local_bindings(f.node)
    gl = set()
    for n in ast.walk(f.node):
        if isinstance(n, ast.Global):
            gl.update(n.names)
    loc_wo_global = loc - gl

    def root_name(e):
        while isinstance(e, (ast.Attribute, ast.Subscript)):
            e = e.value
        return e if isinstance(e, ast.Name) else None

    def is_module_level(name):
        if name in loc_wo_global:
            return None
        r = repo.lookup(f.mod.name, name)
        return r

    for n in ast.walk(f.node):
        tgts = []
        if isinstance(n, ast.Assign):
            tgts = n.targets
        elif isinstance(n, (ast.AugAssign, ast.AnnAssign)):
            tgts = [n.target]
        elif isinstance(n, ast.Delete):
            tgts = n.targets
        for t in tgts:
            for e in (t.elts if isinstance(t, (ast.Tuple, ast.List)) else [t]):
                if isinstance(e, ast.Name):
                    if e.id in gl:
                        res.append((n, "global %s" % e.id))
                    continue
                rn = root_name(e)
                if rn is None:
                    continue
                r = is_module_level(rn.id)
                if r is None or r is False:
                    continue
                if r[1][0] in ("module", "assign", "class"):
                    res.append((n, norm(e)))
        # mutating method calls on module-level containers
        if isinstance(n, ast.Call) and isinstance(n.func, ast.Attribute) and n.func.attr in ("append", "extend", "insert", "pop", "remove", "clear", "update", "setdefault", "add", "discard", "popitem", "sort", "reverse"):
            rn = root_name(n.func.value)
            if rn is not None and isinstance(n.func.value, (ast.Name, ast.Attribute, ast.Subscript)):
                r = is_module_level(rn.id)
                if r and r[1][0] in ("module", "assign"):
                    # only containers: module-level name bound to dict/list/set literal or attribute of module
                    if _is_container_binding(repo, f.mod, n.func.value):
                        res.append((n, norm(n.func)))
    return res


def _is_container_binding(repo, mod, expr):
    """expr is Name / mod.attr bound at module level to a list/dict/set display or dict()/list()/set()/defaultdict() call"""
    target = None
    if isinstance(expr, ast.Name):
        r = repo.lookup(mod.name, expr.id)
        if r and r[0] is not None and r[1][0] == "assign":
            target = r[1][1]
    elif isinstance(expr, ast.Attribute) and isinstance(expr.value, ast.Name):
        r = repo.lookup(mod.name, expr.value.id)
        if r and r[1][0] == "module" and r[1][1] in repo.modules:
            r2 = repo.lookup(r[1][1], expr.attr)
            if r2 and r2[0] is not None and r2[1][0] == "assign":
                target = r2[1][1]
    if target is None or not isinstance(target, ast.Assign):
        return False
    v = target.value
    if isinstance(v, (ast.List, ast.Dict, ast.Set, ast.ListComp, ast.DictComp, ast.SetComp)):
        return True
    if isinstance(v, ast.Call) and isinstance(v.func, ast.Name) and v.func.id in ("dict", "list", "set", "defaultdict", "OrderedDict"):
        return True
    return False


def decode_time_functions(repo):
    """setup functions + helpers they reach, of the live cpu modules; plus precondition lambdas (module level)."""
    from .c17 import dead_cpus
    from ..callgraph import arch_roots
    from .spec import specs

    cg = CallGraph(repo)
    decls, _ = specs(repo)
    hooks = {}
    for s in decls:
        hooks[id(s.func)] = s.func
    fs = cg.reachable(list(hooks.values()))
    # do not descend into the expression algebra / system: keep arch/** only
    fs = {k: v for k, v in fs.items() if v.mod.name.startswith("amoco.arch.") and v.mod.rel != CORE}
    return fs, decls


def r_globalw_decode(repo, tier):
    out = RuleOut(
        "R-GLOBALW",
        "functions executed at decode time (spec setup functions, helpers they reach inside amoco/arch, precondition "
        "lambdas) contain no store to module-level state (global statement writes, item/attribute stores or mutating "
        "container calls on module-level objects): such a store is a channel from one decode call to the next",
    )
    fs, decls = decode_time_functions(repo)
    for f in fs.values():
        ws = global_writes(repo, f)
        out.inst(f.key, {"function": f.key, "module_level_stores": len(ws)} if len(out.samples) < 2 or ws else None, nontrivial=True)
        for n, desc in ws:
            out.report(f.file, f.dqual, "store %s" % desc, n.lineno, "decode-time function writes module-level state %s (decode result of later calls may depend on earlier calls)" % desc)
    # the decode driver itself: disassembler.__call__ and ispec.decode, with what they reach inside arch/core.py.
    # Module-level and class-level stores are channels; in ispec.decode `self` is the spec object shared by every later
    # call, so a store to one of its attributes is a channel as well (the pending instruction self.__i of the
    # disassembler is the one piece of state the driver owns: R-RESET decides it).
    cg = CallGraph(repo)
    roots = [repo.func(CORE, "disassembler.__call__"), repo.func(CORE, "ispec.decode")]
    drv = {k: v for k, v in cg.reachable(roots).items() if v.mod.rel == CORE}
    for f in drv.values():
        ws = global_writes(repo, f)
        out.inst(f.key, {"function": f.key, "module_level_stores": len(ws)} if ws else None, nontrivial=True)
        for n, desc in ws:
            out.report(f.file, f.dqual, "store %s" % desc, n.lineno, "the decode driver writes module/class-level state %s: what a later call decodes can depend on what was decoded before" % desc)
    dec = repo.func(CORE, "ispec.decode")
    for n in ast.walk(dec.node):
        tg = n.targets if isinstance(n, ast.Assign) else [n.target] if isinstance(n, (ast.AugAssign, ast.AnnAssign)) else []
        for t in tg:
            for e in t.elts if isinstance(t, (ast.Tuple, ast.List)) else [t]:
                r = e
                d = 0
                while isinstance(r, (ast.Attribute, ast.Subscript)):
                    r = r.value
                    d += 1
                if isinstance(r, ast.Name) and r.id == "self" and d >= 1:
                    out.report(dec.file, dec.dqual, "store %s" % norm(e), n.lineno, "ispec.decode stores into the spec object (%s), which is shared by every later decode call" % norm(e))
    out.stats["driver_functions"] = len(drv)
    # precondition lambdas
    npre = 0
    for s in decls:
        pre = s.kwnodes.get("__obj")
        if pre is None:
            continue
        npre += 1
        for n in ast.walk(pre):
            if isinstance(n, ast.NamedExpr):
                out.report(s.func.file, s.func.dqual, "precondition %s" % norm(pre)[:80], pre.lineno, "assignment expression inside a precondition")
    out.stats["functions"] = len(fs)
    out.stats["preconditions"] = npre
    if len(fs) < 900:
        raise AnalysisError("R-GLOBALW: only %d decode-time functions (>=900 expected)" % len(fs))
    return out
