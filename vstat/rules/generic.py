"""Generic, repository-wide rules for slips that 'maintenance commits' introduce (C10/C11/C13/C16/C18...):

R-MEMOKEY     a memo (a value kept in an attribute / class attribute / module-level or instance dict, whose store is guarded by a
              look-up of that same location) must be keyed by every parameter its value depends on
R-MUTDEFAULT  no mutable default argument (shared by all later calls)
R-GENARG      no one-shot iterator (generator expression, map/filter/zip) is passed where the callee keeps or re-iterates it
R-SHAREMUT    an object built from another one (copy/eval/rebuild) does not share the other's mutable list/dict attributes
"""
import ast

from ..cfg import _walk_no_nested
from ..harness import RuleOut
from ..index import AnalysisError, norm

SCOPE = ("amoco/cas/", "amoco/system/", "amoco/arch/", "amoco/sa/", "amoco/code.py", "amoco/cfg.py", "amoco/emu.py")
SKIP = ("amoco/system/structs/formatters.py",)


def prop_files(pid):
    """files whose functions count for a property"""
    table = {
        "C03": ("amoco/arch/core.py", "amoco/arch/x86/utils.py", "amoco/arch/x64/utils.py"),
        "C05": ("amoco/arch/",),
        "C11": ("amoco/arch/",),
        "C17": ("amoco/arch/", "amoco/sa/lsweep.py", "amoco/emu.py", "amoco/system/core.py"),
        "C10": ("amoco/cas/", "amoco/system/memory.py", "amoco/arch/"),
        "C13": ("amoco/cas/", "amoco/system/memory.py"),
        "C08": ("amoco/system/memory.py", "amoco/cas/mapper.py"),
        "C12": ("amoco/cas/",),
        "C14": ("amoco/system/elf.py", "amoco/system/pe.py", "amoco/system/macho.py", "amoco/system/coff.py", "amoco/system/structs/", "amoco/system/core.py"),
        "C15": ("amoco/system/",),
        "C16": ("amoco/system/structs/",),
        "C18": ("amoco/sa/lsweep.py", "amoco/code.py", "amoco/cfg.py", "amoco/system/memory.py"),
        "C19": ("amoco/cas/",),
        "C20": ("amoco/system/",),
    }
    return table.get(pid, ())


def _funcs(repo, pid):
    pref = prop_files(pid)
    for m in repo.modules.values():
        if m.rel in SKIP or not m.rel.startswith(pref):
            continue
        for f in m.functions.values():
            yield m, f


def _root(e):
    d = 0
    while isinstance(e, (ast.Attribute, ast.Subscript)):
        e = e.value
        d += 1
    return (e.id if isinstance(e, ast.Name) else None), d


def _deps(fnode, exprs, params):
    """parameters influencing the expressions through local assignments (flow-insensitive closure)"""
    names = set()
    for e in exprs:
        names |= {n.id for n in ast.walk(e) if isinstance(n, ast.Name)}
    changed = True
    while changed:
        changed = False
        for s in _walk_no_nested(fnode):
            tn, src = set(), None
            if isinstance(s, ast.Assign):
                tn = {n.id for t in s.targets for n in ast.walk(t) if isinstance(n, ast.Name) and isinstance(n.ctx, ast.Store)}
                src = s.value
            elif isinstance(s, ast.AugAssign) and isinstance(s.target, ast.Name):
                tn, src = {s.target.id}, s.value
            elif isinstance(s, ast.For):
                tn = {n.id for n in ast.walk(s.target) if isinstance(n, ast.Name)}
                src = s.iter
            if src is not None and tn & names:
                new = {n.id for n in ast.walk(src) if isinstance(n, ast.Name)} - names
                if new:
                    names |= new
                    changed = True
    return names & set(params)


def _enclosing(fnode, target):
    """(tests of enclosing ifs, try statements whose handlers enclose target, try statements preceding target in its block that return)"""
    res = {"tests": [], "handler_of": [], "after_try": []}

    def rec(stmts, tests, handlers):
        prev_try = []
        for s in stmts:
            if s is target or any(x is target for x in ast.walk(s)) and not isinstance(s, (ast.If, ast.Try, ast.For, ast.While, ast.With)):
                res["tests"] = tests
                res["handler_of"] = handlers
                res["after_try"] = list(prev_try)
                return True
            if isinstance(s, ast.If):
                if rec(s.body, tests + [s.test], handlers) or rec(s.orelse, tests + [s.test], handlers):
                    res["after_try"] = res["after_try"] or list(prev_try)
                    return True
            elif isinstance(s, ast.Try):
                if rec(s.body, tests, handlers) or rec(s.orelse, tests, handlers + [s]) or rec(s.finalbody, tests, handlers):
                    return True
                for h in s.handlers:
                    if rec(h.body, tests, handlers + [s]):
                        return True
                prev_try.append(s)
            elif isinstance(s, (ast.For, ast.While, ast.With)):
                if rec(s.body, tests, handlers) or rec(getattr(s, "orelse", []), tests, handlers):
                    return True
        return False

    rec(fnode.body, [], [])
    return res


MUTATOR_NAMES = {"__init__", "__setitem__", "__setstate__", "__setattr__", "__delitem__", "setup", "__call__"}


def r_memokey(pid):
    def rule(repo, tier):
        out = RuleOut(
            "R-MEMOKEY",
            "a memo -- a value stored in an attribute of self/a class, a module-level name or a dict reached from them, where the store "
            "is guarded by a look-up of the same location (if ... is None / in / ==, .get(), try: return L[k] except KeyError) -- "
            "depends only on parameters that are part of its key: a parameter that influences the remembered value but not the key "
            "makes later calls return what an earlier call with another argument computed",
        )
        nfun = nmemo = 0
        for m, f in _funcs(repo, pid):
            nfun += 1
            if f.name in MUTATOR_NAMES:
                continue
            ps = [p for p in f.params()]
            locs = {n.id for n in ast.walk(f.node) if isinstance(n, ast.Name) and isinstance(n.ctx, ast.Store)}
            for s in _walk_no_nested(f.node):
                if not (isinstance(s, ast.Assign) and len(s.targets) == 1):
                    continue
                t = s.targets[0]
                keyexprs = []
                if isinstance(t, ast.Subscript):
                    base = t.value
                    keyexprs.append(t.slice)
                elif isinstance(t, ast.Attribute):
                    base = t
                else:
                    continue
                r, d = _root(base)
                if r is None:
                    continue
                persistent = r in ("self", "cls") or (r not in locs and r not in ps)
                if not persistent or (isinstance(t, ast.Attribute) and d < 1):
                    continue
                btxt = norm(base)
                # locals assigned from a read of the location
                from_loc = {x.targets[0].id for x in _walk_no_nested(f.node) if isinstance(x, ast.Assign) and len(x.targets) == 1 and isinstance(x.targets[0], ast.Name) and btxt in norm(x.value) and x is not s}
                if any(btxt in norm(k) for k in ast.walk(s.value) if isinstance(k, (ast.Attribute, ast.Subscript))) or ({n.id for n in ast.walk(s.value) if isinstance(n, ast.Name)} & from_loc and isinstance(t, ast.Attribute) and False):
                    continue  # state update: the new value is derived from the old one
                if isinstance(s.value, ast.Name) and s.value.id in ps and s.value.id not in ("self", "cls") and not any(isinstance(x, ast.Assign) and any(isinstance(t2, ast.Name) and t2.id == s.value.id for t2 in x.targets) and btxt not in norm(x.value) for x in _walk_no_nested(f.node)):
                    continue  # a setter / registration: the caller's argument itself is recorded, nothing is computed
                enc = _enclosing(f.node, s)
                guard_exprs = []

                def _reads(e, _b=btxt, _t=t):
                    if _b in norm(e):
                        return True
                    if isinstance(_t, ast.Attribute):
                        for c_ in ast.walk(e):
                            if isinstance(c_, ast.Call) and isinstance(c_.func, ast.Name) and c_.func.id in ("hasattr", "getattr") and len(c_.args) >= 2 and norm(c_.args[0]) == norm(_t.value) and isinstance(c_.args[1], ast.Constant) and c_.args[1].value == _t.attr:
                                return True
                    return False

                from_loc |= {x.targets[0].id for x in _walk_no_nested(f.node) if isinstance(x, ast.Assign) and len(x.targets) == 1 and isinstance(x.targets[0], ast.Name) and x is not s and _reads(x.value)}
                for tst_ in enc["tests"]:
                    if _reads(tst_) or ({n.id for n in ast.walk(tst_) if isinstance(n, ast.Name)} & from_loc):
                        guard_exprs.append(tst_)
                for tr in enc["handler_of"] + enc["after_try"]:
                    reads = [x for b in tr.body for x in ast.walk(b) if isinstance(x, (ast.Subscript, ast.Attribute)) and norm(x).startswith(btxt) and isinstance(getattr(x, "ctx", None), ast.Load)]
                    if reads and any(isinstance(h.type, (ast.Name, ast.Tuple)) and any(nm in norm(h.type) for nm in ("KeyError", "AttributeError", "LookupError", "IndexError")) for h in tr.handlers):
                        guard_exprs += reads
                        for x in reads:
                            if isinstance(x, ast.Subscript):
                                keyexprs.append(x.slice)
                if not guard_exprs:
                    continue
                # keys: subscripts used with the location anywhere, and the other side of comparisons with it
                for x in ast.walk(f.node):
                    if isinstance(x, ast.Subscript) and norm(x.value) == btxt:
                        keyexprs.append(x.slice)
                    if isinstance(x, ast.Call) and isinstance(x.func, ast.Attribute) and x.func.attr in ("get", "setdefault", "__contains__") and norm(x.func.value) == btxt and x.args:
                        keyexprs.append(x.args[0])
                    if isinstance(x, ast.Compare) and any(btxt in norm(k) for k in [x.left] + list(x.comparators)):
                        for k in [x.left] + list(x.comparators):
                            if btxt not in norm(k):
                                keyexprs.append(k)
                nmemo += 1
                dv = _deps(f.node, [s.value], ps) - {"self", "cls"}
                dk = _deps(f.node, keyexprs, ps) - {"self", "cls"}
                out.inst("%s::%s" % (f.key, norm(s)[:70]), {"function": f.dqual, "memo": norm(s)[:80], "value_depends_on": sorted(dv), "key_depends_on": sorted(dk)})
                extra = dv - dk
                # an instance attribute is implicitly keyed by self; a class / module-level location is not
                if extra:
                    out.report(m.rel, f.dqual, "memo %s" % norm(t)[:70], s.lineno, "%s remembers `%s` across calls but the remembered value also depends on parameter(s) %s, which are not part of the look-up key (%s): a later call with another value of %s gets the result computed for the earlier one" % (f.dqual, norm(t)[:60], sorted(extra), ", ".join(sorted(dk)) or "no key", sorted(extra)))
                elif r not in ("self",) and isinstance(t, ast.Attribute) and "self" in {n.id for n in ast.walk(s.value) if isinstance(n, ast.Name)} | _deps(f.node, [s.value], ps):
                    out.report(m.rel, f.dqual, "memo %s" % norm(t)[:70], s.lineno, "%s remembers a value computed from `self` in the class/module-level location `%s`, shared by all instances" % (f.dqual, norm(t)[:60]))
        out.stats["functions"] = nfun
        out.stats["memos"] = nmemo
        if nfun < 20:
            raise AnalysisError("R-MEMOKEY: only %d functions in scope for %s" % (nfun, pid))
        return out

    rule.__name__ = "r_memokey_%s" % pid
    return rule


def r_mutdefault(pid):
    def rule(repo, tier):
        out = RuleOut(
            "R-MUTDEFAULT",
            "no function of this property's files has a mutable default argument (list / dict / set display or list()/dict()/set()): "
            "the one object is shared by every call that omits the argument, so what one call appends is seen by the next",
        )
        n = 0
        for m, f in _funcs(repo, pid):
            a = f.node.args
            pos = a.posonlyargs + a.args
            pairs = list(zip(pos[len(pos) - len(a.defaults):], a.defaults)) + [(p, d) for p, d in zip(a.kwonlyargs, a.kw_defaults) if d is not None]
            n += 1
            for p, d in pairs:
                if isinstance(d, (ast.List, ast.Dict, ast.Set, ast.ListComp, ast.DictComp, ast.SetComp)) or (isinstance(d, ast.Call) and isinstance(d.func, ast.Name) and d.func.id in ("list", "dict", "set", "bytearray", "defaultdict", "deque")):
                    out.report(m.rel, f.dqual, "default %s=%s" % (p.arg, norm(d)), f.node.lineno, "parameter `%s` of %s defaults to the mutable object `%s`, created once and shared by all calls" % (p.arg, f.dqual, norm(d)))
        out.inst("functions", {"functions_examined": n})
        out.instances = n
        if n < 20:
            raise AnalysisError("R-MUTDEFAULT: only %d functions in scope for %s" % (n, pid))
        return out

    rule.__name__ = "r_mutdefault_%s" % pid
    return rule


def keeping_params(repo):
    """(module name, callable name) -> set of parameter positions/names that the callee stores into an attribute or iterates more
    than once (so it needs a re-iterable argument).  Classes stand for their __init__."""
    res = {}
    for m in repo.modules.values():
        if not m.rel.startswith(SCOPE):
            continue
        for f in m.functions.values():
            ps = f.params()
            if not ps:
                continue
            keep = set()
            for p in ps:
                if p in ("self", "cls"):
                    continue
                iters = 0
                stored = False
                # `if p is None: p = []` (default idiom) is not a re-binding of a supplied argument
                dflt = set()
                for n in ast.walk(f.node):
                    if isinstance(n, ast.If) and isinstance(n.test, ast.Compare) and isinstance(n.test.left, ast.Name) and n.test.left.id == p and isinstance(n.test.ops[0], ast.Is) and isinstance(n.test.comparators[0], ast.Constant) and n.test.comparators[0].value is None:
                        dflt |= {id(x) for b in n.body for x in ast.walk(b)}
                rebound = any(isinstance(n, ast.Name) and n.id == p and isinstance(n.ctx, ast.Store) and id(n) not in dflt for n in ast.walk(f.node))
                for n in ast.walk(f.node):
                    if isinstance(n, (ast.For, ast.comprehension)) and isinstance(n.iter, ast.Name) and n.iter.id == p:
                        iters += 1
                    if isinstance(n, ast.Call) and isinstance(n.func, ast.Name) and n.func.id in ("len", "sum", "max", "min", "any", "all", "sorted", "list", "tuple") and n.args and isinstance(n.args[0], ast.Name) and n.args[0].id == p:
                        iters += 1 if n.func.id != "len" else 2
                    if isinstance(n, ast.Assign) and isinstance(n.value, ast.Name) and n.value.id == p and any(isinstance(t, ast.Attribute) for t in n.targets):
                        stored = True
                if (stored or iters >= 2) and not rebound:
                    keep.add(p)
            if keep:
                name = f.cls.name if f.cls is not None and f.name == "__init__" else (f.qual if f.cls is None else None)
                if name:
                    res[(m.name, name)] = (f, keep)
    return res


def r_genarg(pid):
    def rule(repo, tier):
        out = RuleOut(
            "R-GENARG",
            "a one-shot iterator (generator expression, map(), filter(), zip(), iter(), reversed()) is never passed for a parameter that "
            "the resolved callee stores into an attribute or iterates more than once (vec(l), composer(parts), ...): the second pass "
            "sees it empty",
        )
        kp = keeping_params(repo)
        byname = {}
        for (mn, name), v in kp.items():
            byname.setdefault(name, []).append((mn, v))
        n = 0
        for m, f in _funcs(repo, pid):
            for c in ast.walk(f.node):
                if not (isinstance(c, ast.Call) and isinstance(c.func, ast.Name) and c.func.id in byname):
                    continue
                r = repo.lookup(m.name, c.func.id)
                if not r or r[0] is None:
                    continue
                cands = [v for mn, v in byname[c.func.id] if mn == r[0].name]
                if not cands:
                    continue
                g, keep = cands[0]
                gps = [p for p in g.params() if p not in ("self", "cls")]
                n += 1
                for k, a_ in enumerate(c.args):
                    if k < len(gps) and gps[k] in keep and (isinstance(a_, ast.GeneratorExp) or (isinstance(a_, ast.Call) and isinstance(a_.func, ast.Name) and a_.func.id in ("map", "filter", "zip", "iter", "reversed"))):
                        out.report(m.rel, f.dqual, "one-shot %s" % norm(c)[:70], c.lineno, "`%s` passes a one-shot iterator for parameter `%s` of %s, which keeps or re-iterates it: after the first pass it is empty" % (norm(c)[:80], gps[k], g.dqual))
        out.instances = n
        out.stats["calls"] = n
        out.stats["keeping_callables"] = len(kp)
        if len(kp) < 3:
            raise AnalysisError("R-GENARG: callee summaries not found (vec/composer expected)")
        return out

    rule.__name__ = "r_genarg_%s" % pid
    return rule


def mutable_attrs(cls_info, repo):
    """attributes of a class that hold a list / dict / set built in a constructor (of the class or of a by-name base)"""
    out = set()
    for c in repo.mro(cls_info):
        init = c.methods.get("__init__")
        if init is None:
            continue
        for n in ast.walk(init.node):
            if isinstance(n, ast.Assign):
                v = n.value
                mut = isinstance(v, (ast.List, ast.Dict, ast.Set, ast.ListComp, ast.DictComp, ast.SetComp)) or (isinstance(v, ast.BinOp) and isinstance(v.op, ast.Mult) and isinstance(v.left, ast.List)) or (isinstance(v, ast.Call) and isinstance(v.func, ast.Name) and v.func.id in ("list", "dict", "set", "defaultdict", "OrderedDict"))
                if not mut and isinstance(v, ast.Call) and isinstance(v.func, ast.Name):
                    # an object of a class of the same module that has in-place methods (stores into self outside constructors)
                    k = c.mod.classes.get(v.func.id)
                    if k is not None:
                        for g in k.methods.values():
                            if g.name in ("__init__", "__setstate__", "__new__"):
                                continue
                            if any(isinstance(x, (ast.Assign, ast.AugAssign)) and any(isinstance(t2, ast.Attribute) and isinstance(t2.value, ast.Name) and t2.value.id == "self" for t2 in (x.targets if isinstance(x, ast.Assign) else [x.target])) for x in ast.walk(g.node)):
                                mut = True
                                break
                if mut:
                    for t in n.targets:
                        if isinstance(t, ast.Attribute) and isinstance(t.value, ast.Name) and t.value.id == "self":
                            out.add(t.attr)
    return out


def r_sharemut(pid):
    def rule(repo, tier):
        out = RuleOut(
            "R-SHAREMUT",
            "when a method builds another object of its class from self (copy / eval / rebuild helpers), an attribute that holds a "
            "list, dict or set (as assigned in the constructor) is never handed over by reference (`res.a = self.a`): the two objects "
            "would then update one container (in-place methods such as comp.cut / restruct rewrite smask and parts)",
        )
        n = 0
        nclasses = 0
        for m in repo.modules.values():
            if not m.rel.startswith(prop_files(pid)) or not m.rel.startswith(("amoco/cas/", "amoco/system/memory.py", "amoco/code.py", "amoco/cfg.py")):
                continue
            for c in m.classes.values():
                ma = mutable_attrs(c, repo)
                if not ma:
                    continue
                nclasses += 1
                for f in c.methods.values():
                    if f.name in ("__init__", "__setstate__"):
                        continue
                    for s in _walk_no_nested(f.node):
                        if not (isinstance(s, ast.Assign) and len(s.targets) == 1):
                            continue
                        t, v = s.targets[0], s.value
                        if isinstance(t, ast.Attribute) and isinstance(t.value, ast.Name) and t.value.id != "self" and t.attr in ma:
                            n += 1
                            shared = isinstance(v, ast.Attribute) and isinstance(v.value, ast.Name) and v.value.id == "self" and v.attr == t.attr
                            out.inst("%s::%s" % (f.key, norm(s)), {"method": f.dqual, "transfer": norm(s), "by_reference": shared})
                            if shared:
                                out.report(m.rel, f.dqual, norm(s), s.lineno, "%s hands its own %s container to the object it builds (`%s`): both objects now share one %s, which the in-place methods of %s rewrite" % (f.dqual, t.attr, norm(s), t.attr, c.name))
                    # copy-like methods: the class constructor is not handed self's own mutable attribute
                    if f.name in ("copy", "__copy__", "__deepcopy__"):
                        for call in _walk_no_nested(f.node):
                            if isinstance(call, ast.Call) and ((isinstance(call.func, ast.Name) and call.func.id == c.name) or norm(call.func) in ("self.__class__", "type(self)")):
                                for a_ in list(call.args) + [k.value for k in call.keywords]:
                                    if isinstance(a_, ast.Attribute) and isinstance(a_.value, ast.Name) and a_.value.id == "self" and a_.attr in ma:
                                        n += 1
                                        out.report(m.rel, f.dqual, "%s(.. self.%s ..)" % (c.name, a_.attr), call.lineno, "%s builds its result with `%s`, passing its own %s object: the copy and the original share it, and %s is modified in place" % (f.dqual, norm(call)[:70], a_.attr, a_.attr))
        out.stats["transfers"] = n
        out.stats["classes_with_containers"] = nclasses
        if nclasses < 2:
            raise AnalysisError("R-SHAREMUT: only %d classes with container attributes in scope for %s" % (nclasses, pid))
        return out

    rule.__name__ = "r_sharemut_%s" % pid
    return rule


def r_truthybound(pid):
    def rule(repo, tier):
        out = RuleOut(
            "R-TRUTHYBOUND",
            "a slice bound (`s.start`, `s.stop`) is never tested by truthiness (`if s.stop`, `x if s.stop else y`, `s.stop or d` with "
            "d != 0): 0 is a valid bound and is false, so an explicit empty/zero bound would be taken for an open one; open bounds are "
            "tested with `is None`",
        )
        n = 0
        for m, f in _funcs(repo, pid):
            # methods behind the slice-checking decorator never see stop == 0 (it rejects stop <= start with start >= 0)
            if any("checkarg_slice" in norm(d) for d in f.node.decorator_list):
                continue
            for x in ast.walk(f.node):
                tests = []
                if isinstance(x, (ast.If, ast.IfExp, ast.While, ast.Assert)):
                    tests.append(x.test)
                elif isinstance(x, ast.BoolOp):
                    if isinstance(x.op, ast.Or) and len(x.values) == 2 and isinstance(x.values[1], ast.Constant) and x.values[1].value in (0, None):
                        # `s.start or 0` : 0 -> 0, harmless
                        if isinstance(x.values[0], ast.Attribute) and x.values[0].attr in ("start", "stop"):
                            n += 1
                            out.inst("%s::%s" % (f.key, norm(x)), {"function": f.dqual, "expr": norm(x), "harmless": True})
                        continue
                    tests += x.values[:-1] if isinstance(x.op, ast.Or) else x.values
                for t in tests:
                    while isinstance(t, ast.UnaryOp) and isinstance(t.op, ast.Not):
                        t = t.operand
                    if isinstance(t, ast.Attribute) and t.attr in ("start", "stop") and isinstance(t.ctx, ast.Load):
                        n += 1
                        out.inst("%s::%s@%d" % (f.key, norm(t), t.lineno), {"function": f.dqual, "expr": norm(x)[:80], "harmless": False})
                        out.report(m.rel, f.dqual, "truthiness of %s" % norm(t), t.lineno, "`%s` is tested by truthiness in `%s`: the valid bound 0 is taken for an open bound (None)" % (norm(t), norm(x)[:80]))
        out.stats["sites"] = n
        out.instances = max(out.instances, 1)
        return out

    rule.__name__ = "r_truthybound_%s" % pid
    return rule
