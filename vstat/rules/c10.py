"""C10: symbolic results do not depend on analysis history.

R-SHMUT    no in-place signedness/size/value mutation of a shared expression object in amoco/arch
R-GLOBALW  semantics functions (and what they reach in amoco/arch) write no module-level state
R-REGTYPE  regtype.cur is written only by regtype.__enter__/__exit__; reg._subrefs only through slc.setref
"""
import ast

from ..cfg import _walk_no_nested
from ..harness import RuleOut
from ..index import AnalysisError, norm
from ..callgraph import CallGraph
from ..scopes import local_bindings
from .c11 import global_writes
from .cas import CONSTRUCTORS

MUT_ATTRS = ("sf", "size", "v")
MUT_CALLS = ("signed", "unsigned", "set_top")
SKIP_FILES = ("parsers.py", "gas.py", "formats.py")  # assembler front-ends and pretty-printers are anchored by no C10 file pattern


def arch_functions(repo):
    out = []
    for m in repo.modules.values():
        if not m.name.startswith("amoco.arch.") or m.rel.endswith(SKIP_FILES) or m.rel == "amoco/arch/core.py":
            continue
        for f in m.functions.values():
            out.append(f)
    return out


def is_env_module(repo, modname):
    return modname in repo.modules and modname.rpartition(".")[2].startswith("env")


def classify_names(repo, f):
    """name -> 'operand' | 'register' | 'fmapshared' | 'fresh' | 'unknown' for locals of f (flow-insensitive, worst case)"""
    loc = local_bindings(f.node)
    order = {"fresh": 0, "unknown": 1, "fmapshared": 2, "register": 3, "operand": 4}
    prov = {}

    def setp(name, c):
        if name not in prov or order[c] > order[prov[name]]:
            prov[name] = c
            return True
        return False

    def modlevel_expr(name):
        """is a non-local name a module-level expression object (register / constant of an env module)?"""
        if name in loc:
            return False
        r = repo.lookup(f.mod.name, name)
        if not r or r[0] is None:
            return False
        m, desc = r
        return desc[0] == "assign" and is_env_module(repo, m.name)

    def cls_expr(v):
        if isinstance(v, ast.Name):
            if v.id in prov:
                return prov[v.id]
            if modlevel_expr(v.id):
                return "register"
            return "unknown"
        if isinstance(v, ast.Attribute):
            # env.eax / ins.operands / i.operands
            if v.attr == "operands":
                return "operand"
            if isinstance(v.value, ast.Name) and v.value.id not in loc:
                r = repo.lookup(f.mod.name, v.value.id)
                if r and r[1][0] == "module" and is_env_module(repo, r[1][1]):
                    r2 = repo.lookup(r[1][1], v.attr)
                    if r2 and r2[0] is not None and r2[1][0] == "assign":
                        return "register"
            return "unknown"
        if isinstance(v, ast.Subscript):
            b = cls_expr(v.value)
            if isinstance(v.slice, ast.Slice):
                # slicing an expression: reg[0:8] builds a slc (fresh object) but operands[0:2] is a list slice
                if isinstance(v.value, ast.Attribute) and v.value.attr == "operands":
                    return "operand"
                return "unknown"
            if b in ("operand", "register"):
                return b  # element of operands / of a module-level register list
            return "unknown"
        if isinstance(v, ast.Call):
            fn = v.func
            if isinstance(fn, ast.Name) and fn.id in CONSTRUCTORS:
                return "fresh"
            if isinstance(fn, ast.Attribute) and fn.attr in CONSTRUCTORS and isinstance(fn.value, ast.Name):
                return "fresh"
            if isinstance(fn, ast.Attribute) and fn.attr in ("zeroextend", "signextend", "copy"):
                return "unknown" if fn.attr != "copy" else "fresh"
            # fmap(x) / fmap[x] on a shared x, with no operator in between
            if isinstance(fn, ast.Name) and fn.id in ("fmap",) and len(v.args) == 1:
                a = cls_expr(v.args[0])
                if a in ("operand", "register", "fmapshared"):
                    return "fmapshared"
                return "unknown"
            if isinstance(fn, ast.Attribute) and fn.attr in MUT_CALLS:
                return cls_expr(fn.value)  # x.signed() returns x
            return "unknown"
        if isinstance(v, ast.IfExp):
            a, b = cls_expr(v.body), cls_expr(v.orelse)
            return a if order[a] >= order[b] else b
        return "unknown"

    changed = True
    it = 0
    while changed and it < 5:
        changed = False
        it += 1
        for n in ast.walk(f.node):
            if isinstance(n, ast.Assign):
                for t in n.targets:
                    if isinstance(t, ast.Name):
                        changed |= setp(t.id, cls_expr(n.value))
                    elif isinstance(t, (ast.Tuple, ast.List)):
                        if isinstance(n.value, (ast.Tuple, ast.List)) and len(n.value.elts) == len(t.elts):
                            for a, b in zip(t.elts, n.value.elts):
                                if isinstance(a, ast.Name):
                                    changed |= setp(a.id, cls_expr(b))
                        else:
                            c = cls_expr(n.value)
                            for a in t.elts:
                                if isinstance(a, ast.Name):
                                    changed |= setp(a.id, c if c in ("operand",) else "unknown")
                                elif isinstance(a, ast.Starred) and isinstance(a.value, ast.Name):
                                    changed |= setp(a.value.id, "unknown")
            elif isinstance(n, ast.For) and isinstance(n.target, ast.Name):
                c = cls_expr(n.iter)
                changed |= setp(n.target.id, c if c == "operand" else "unknown")
    return prov, cls_expr


def param_mutators(repo):
    """one-level summaries: {id(FuncInfo): (FuncInfo, {param index: what})} for module-level functions of
    amoco/cas/utils.py and amoco/arch/** that mutate a parameter in place (.sf=, .size=, .v=, .signed(), .unsigned())."""
    out = {}
    cands = list(repo.mod("amoco/cas/utils.py").functions.values()) + [f for f in arch_functions(repo)]
    for f in cands:
        if f.cls is not None or f.parent is not None:
            continue
        params = f.params()
        hits = {}
        for n in _walk_no_nested(f.node):
            tgts = []
            if isinstance(n, (ast.Assign, ast.AugAssign)):
                for t in (n.targets if isinstance(n, ast.Assign) else [n.target]):
                    for e in (t.elts if isinstance(t, (ast.Tuple, ast.List)) else [t]):
                        if isinstance(e, ast.Attribute) and e.attr in MUT_ATTRS and isinstance(e.value, ast.Name) and e.value.id in params:
                            tgts.append((e.value.id, ".%s=" % e.attr))
            elif isinstance(n, ast.Call) and isinstance(n.func, ast.Attribute) and n.func.attr in MUT_CALLS and not n.args and isinstance(n.func.value, ast.Name) and n.func.value.id in params:
                tgts.append((n.func.value.id, ".%s()" % n.func.attr))
            for p, w in tgts:
                # parameter rebound before? (x = cst(...)) -> not the caller's object any more: skip if the param is assigned in the function
                rebound = any(isinstance(a, ast.Name) and a.id == p and isinstance(a.ctx, ast.Store) for a in ast.walk(f.node))
                if not rebound and not (params.index(p) == 0 and p in ("obj", "self", "ins", "i", "instr")):
                    hits.setdefault(params.index(p), w)
        if hits and not f.name.startswith("i_"):
            out[id(f)] = (f, hits)
    return out


def r_shmut(repo, tier):
    out = RuleOut(
        "R-SHMUT",
        "in amoco/arch (spec, asm, utils, formats, env helpers) no in-place mutation (.sf= .size= .v= .signed() .unsigned()) of "
        "an expression that definitely aliases a shared object: an element of an instruction's operands, a module-level "
        "register (or element of a module-level register list), or what fmap(x)/fmap[x] returns for such an x with no "
        "operator in between; receivers of unknown provenance are undecided",
    )
    fs = arch_functions(repo)
    nsem = 0
    nmut = 0
    pm = param_mutators(repo)
    cg = CallGraph(repo)
    out.stats["param_mutating_helpers"] = sorted("%s.%s" % (v[0].mod.name.replace("amoco.", ""), v[0].name) for v in pm.values())
    for f in fs:
        events = []
        for n in _walk_no_nested(f.node):
            if isinstance(n, ast.Call) and isinstance(n.func, ast.Name):
                t = cg.resolve_name(f.mod, n.func.id)
                if t is not None and not isinstance(t, tuple) and not hasattr(t, "methods") and id(t) in pm:
                    for k, w in pm[id(t)][1].items():
                        if k < len(n.args):
                            events.append((n, n.args[k], "%s(arg %d)%s" % (t.name, k, w), " -> %s(...)%s" % (t.name, w)))
        for n in _walk_no_nested(f.node):
            if isinstance(n, (ast.Assign, ast.AugAssign)):
                for t in (n.targets if isinstance(n, ast.Assign) else [n.target]):
                    for e in (t.elts if isinstance(t, (ast.Tuple, ast.List)) else [t]):
                        if isinstance(e, ast.Attribute) and e.attr in MUT_ATTRS:
                            events.append((n, e.value, "%s = " % e.attr, ".%s" % e.attr))
            elif isinstance(n, ast.Call) and isinstance(n.func, ast.Attribute) and n.func.attr in MUT_CALLS and not n.args:
                events.append((n, n.func.value, ".%s()" % n.func.attr, ".%s()" % n.func.attr))
        if f.name.startswith("i_"):
            nsem += 1
        out.inst(f.key, None, nontrivial=bool(events))
        if not events:
            continue
        prov, cls_expr = classify_names(repo, f)
        for stmt, recv, what, tag in events:
            nmut += 1
            # instruction / spec objects: obj.size, self.size ... are not expressions
            if isinstance(recv, ast.Name) and recv.id in ("obj", "self", "ins", "i", "instr") and recv.id in f.params()[:1]:
                continue
            c = cls_expr(recv)
            rt = norm(recv)
            if len(out.samples) < 5:
                out.samples.append({"site": "%s:%d" % (f.file, stmt.lineno), "function": f.dqual, "mutation": "%s%s" % (rt, tag), "receiver": c})
            if c == "fresh":
                continue
            if c == "register" and _under_cst_guard(f.node, stmt, rt):
                out.undecide(f.file, f.dqual, "%s%s" % (rt, tag), "mutation guarded by %s._is_cst: a module-level register is never a constant, the mutated object is a constant of unknown freshness" % rt)
                continue
            if c == "unknown":
                out.undecide(f.file, f.dqual, "%s%s" % (rt, tag), "receiver of unknown provenance (operator result / helper result)")
                continue
            why = {"operand": "an element of the instruction's operands list", "register": "a module-level register object", "fmapshared": "the object the mapper returns for a shared register/operand (the stored value itself or the register)"}[c]
            out.report(f.file, f.dqual, "%s%s" % (rt, tag), stmt.lineno, "%s mutates %s in place (%s): every expression or stored map that contains that object changes its signed/width denotation" % (f.dqual, rt, why))
    out.stats.update({"functions": len(fs), "semantics": nsem, "mutation_sites": nmut})
    if len(fs) < 2700 or nsem < 1400:
        raise AnalysisError("R-SHMUT: %d arch functions / %d semantics functions (>=2700 / >=1400 expected)" % (len(fs), nsem))
    return out


def _under_cst_guard(fnode, stmt, recvtext):
    """is stmt inside the body of an `if` whose test contains `<recv>._is_cst` as a conjunct?"""
    def rec(stmts, acc):
        for s in stmts:
            if s is stmt or any(x is stmt for x in ast.walk(s)) and not isinstance(s, (ast.If, ast.For, ast.While, ast.With, ast.Try)):
                return acc
            if isinstance(s, ast.If):
                r = rec(s.body, acc + [norm(s.test)])
                if r is not None:
                    return r
                r = rec(s.orelse, acc)
                if r is not None:
                    return r
            elif isinstance(s, (ast.For, ast.While, ast.With, ast.Try)):
                for blk in (getattr(s, "body", []), getattr(s, "orelse", []), getattr(s, "finalbody", [])):
                    r = rec(blk, acc)
                    if r is not None:
                        return r
                for h in getattr(s, "handlers", []):
                    r = rec(h.body, acc)
                    if r is not None:
                        return r
        return None

    g = rec(fnode.body, []) or []
    return any(("%s._is_cst" % recvtext) in t for t in g)


def r_globalw_sem(repo, tier):
    out = RuleOut(
        "R-GLOBALW",
        "semantics functions i_XXX of every cpu module, and the helpers they reach inside amoco/arch, contain no store to "
        "module-level state (global writes, item/attribute stores or mutating container calls on module-level objects)",
    )
    cg = CallGraph(repo)
    roots = [f for f in arch_functions(repo) if f.name.startswith("i_") and f.parent is None and f.cls is None]
    fs = cg.reachable(roots)
    fs = {k: v for k, v in fs.items() if v.mod.name.startswith("amoco.arch.") and v.mod.rel != "amoco/arch/core.py" and not v.mod.rel.endswith(SKIP_FILES)}
    for f in fs.values():
        ws = global_writes(repo, f)
        out.inst(f.key, {"function": f.key, "module_level_stores": len(ws)} if ws and len(out.samples) < 4 else None)
        for n, desc in ws:
            out.report(f.file, f.dqual, "store %s" % desc, n.lineno, "symbolic execution writes process-global state %s: results of later decoding/execution depend on what was executed before" % desc)
    out.stats["functions"] = len(fs)
    if len(fs) < 1400:
        raise AnalysisError("R-GLOBALW: only %d semantics-reachable functions" % len(fs))
    return out


def r_regtype(repo, tier):
    out = RuleOut(
        "R-REGTYPE",
        "the register-category context regtype.cur is written only by regtype.__enter__/__exit__ (and its class-level "
        "initialiser) and regtype objects are only used through `with` or as decorators; reg._subrefs is written only by "
        "slc.setref / constructors",
    )
    n = 0
    for m in repo.modules.values():
        for f in list(m.functions.values()):
            for x in ast.walk(f.node):
                if isinstance(x, ast.Attribute) and isinstance(x.ctx, ast.Store) and x.attr == "cur" and norm(x.value) in ("regtype", "cls", "self.__class__"):
                    n += 1
                    ok = f.cls is not None and f.cls.name == "regtype" and f.name in ("__enter__", "__exit__")
                    out.inst("%s::regtype.cur" % f.key, {"site": "%s:%d" % (f.file, x.lineno), "writer": f.dqual, "allowed": ok})
                    if not ok:
                        out.report(f.file, f.dqual, "store regtype.cur", x.lineno, "regtype.cur written outside regtype.__enter__/__exit__")
                if isinstance(x, ast.Subscript) and isinstance(x.ctx, ast.Store) and isinstance(x.value, ast.Attribute) and x.value.attr == "_subrefs":
                    n += 1
                    ok = f.name in ("setref", "__init__", "__setstate__")
                    out.inst("%s::_subrefs" % f.key, {"site": "%s:%d" % (f.file, x.lineno), "writer": f.dqual, "allowed": ok})
                    if not ok:
                        out.report(f.file, f.dqual, "store _subrefs[...]", x.lineno, "register sub-reference table written outside slc.setref/constructors")
    # __enter__/__exit__ pairing: __exit__ restores what __enter__ saved
    m = repo.mod("amoco/cas/expressions.py")
    rt = m.classes.get("regtype")
    if rt is None or "__enter__" not in rt.methods or "__exit__" not in rt.methods:
        raise AnalysisError("anchor vanished: regtype.__enter__/__exit__")
    ex = norm(rt.methods["__exit__"].node)
    out.inst("regtype.__exit__", {"exit_body": ex[:120]})
    if "cur" not in ex:
        out.report(m.rel, "regtype.__exit__", "restore regtype.cur", rt.methods["__exit__"].node.lineno, "__exit__ does not restore regtype.cur")
    out.stats["sites"] = n
    if n < 2:
        raise AnalysisError("R-REGTYPE: writers of regtype.cur not found")
    return out
