"""Ownership rules for merge() (C10, C13, C19): the inputs of a merge are never simplified in place.

R-OWNMERGE
    mapper.__iter__ hands out the very expressions stored in the map.  Several expression classes simplify
    *in place* (their `simplify` stores into self's own fields).  `merge(m1, m2)` calls `.simplify()` on the values
    it iterates from m1 / m2: every definition of that map variable reaching the loop must therefore be a *fresh*
    map (the result of mapper(...) or of a mapper method all of whose returns are fresh maps) -- never the
    caller's map itself.
"""
import ast

from ..cfg import CFG, _walk_no_nested, reaching_defs
from ..harness import RuleOut
from ..index import AnalysisError, norm

MAPPER = "amoco/cas/mapper.py"
EXPR = "amoco/cas/expressions.py"


def inplace_simplify_classes(repo):
    """exp subclasses whose simplify() stores into self.<field> (so calling it changes the receiver)"""
    out = {}
    m = repo.mod(EXPR)
    for c in m.classes.values():
        f = c.methods.get("simplify")
        if f is None:
            continue
        stores = []
        for n in _walk_no_nested(f.node):
            tg = []
            if isinstance(n, ast.Assign):
                tg = n.targets
            elif isinstance(n, ast.AugAssign):
                tg = [n.target]
            for t in tg:
                for e in t.elts if isinstance(t, (ast.Tuple, ast.List)) else [t]:
                    r = e
                    depth = 0
                    while isinstance(r, (ast.Attribute, ast.Subscript)):
                        r = r.value
                        depth += 1
                    if isinstance(r, ast.Name) and r.id == "self" and depth >= 1:
                        stores.append(norm(e))
            if isinstance(n, ast.Call) and isinstance(n.func, ast.Attribute) and isinstance(n.func.value, ast.Name) and n.func.value.id == "self" and n.func.attr in ("restruct", "cut"):
                stores.append(norm(n))
        if stores:
            out[c.name] = sorted(set(stores))
    return out


def fresh_mapper_methods(repo):
    """names of mapper methods every return of which is a new mapper (least fixpoint over the class)"""
    c = repo.mod(MAPPER).classes.get("mapper")
    if c is None:
        raise AnalysisError("class mapper vanished from %s" % MAPPER)
    fresh = set()
    info = {}

    def fresh_expr(v, cfg, nd, depth=0):
        if isinstance(v, ast.Call):
            if isinstance(v.func, ast.Name) and v.func.id == "mapper":
                return True
            if isinstance(v.func, ast.Attribute) and v.func.attr in fresh:
                return True
            if norm(v.func) in ("self.__class__", "type(self)"):
                return True
            return False
        if isinstance(v, ast.BinOp) and isinstance(v.op, (ast.LShift, ast.RShift)):
            return ("__lshift__" if isinstance(v.op, ast.LShift) else "__rshift__") in fresh
        if isinstance(v, ast.IfExp):
            return fresh_expr(v.body, cfg, nd, depth) and fresh_expr(v.orelse, cfg, nd, depth)
        if isinstance(v, ast.Name) and depth < 3:
            rd = reaching_defs(cfg, v.id).get(nd.id, frozenset())
            if not rd:
                return False
            for d in rd:
                dn = cfg.nodes[d]
                if dn is cfg.entry or not isinstance(dn.ast, ast.Assign) or len(dn.ast.targets) != 1 or not isinstance(dn.ast.targets[0], ast.Name):
                    return False
                if not fresh_expr(dn.ast.value, cfg, dn, depth + 1):
                    return False
            return True
        return False

    changed = True
    cfgs = {}
    while changed:
        changed = False
        for name, f0 in c.methods.items():
            if name in fresh:
                continue
            f = repo.func(MAPPER, f0.qual)
            rets = [n for n in _walk_no_nested(f.node) if isinstance(n, ast.Return)]
            if not rets or any(r.value is None for r in rets):
                continue
            if any(isinstance(n, (ast.Yield, ast.YieldFrom)) for n in _walk_no_nested(f.node)):
                continue
            cfg = cfgs.get(name)
            if cfg is None:
                cfg = cfgs[name] = CFG(f.node, may_raise=lambda x: False)
            ok = True
            for r in rets:
                nd = cfg.stmt_node.get(id(r))
                if nd is None or not fresh_expr(r.value, cfg, nd):
                    ok = False
                    break
            if ok:
                fresh.add(name)
                info[name] = [norm(r) for r in rets]
                changed = True
    return fresh, info, fresh_expr


def r_ownmerge(repo, tier):
    out = RuleOut(
        "R-OWNMERGE",
        "merge(m1, m2) iterates the expressions stored in its input maps (mapper.__iter__ yields the stored objects) and calls "
        "simplify() on them; comp/vec/... simplify in place.  Every definition of the iterated map variable that reaches the loop "
        "is a fresh map (mapper(...) or a mapper method whose every return is a new mapper), never the caller's own map",
    )
    inplace = inplace_simplify_classes(repo)
    if "comp" not in inplace and "vec" not in inplace:
        raise AnalysisError("R-OWNMERGE: no in-place simplify found in comp/vec (anchor changed)")
    fresh, info, fresh_expr = fresh_mapper_methods(repo)
    out.inst("fresh-mapper-methods", {"fresh": sorted(fresh), "in_place_simplify": inplace})
    if "eval" not in fresh or "assume" not in fresh:
        raise AnalysisError("R-OWNMERGE: mapper.eval/assume not recognised as returning new maps (%s)" % sorted(fresh))
    # mapper.__iter__ really yields stored objects?
    it = repo.func(MAPPER, "mapper.__iter__")
    yields_stored = any("__map" in norm(n) for n in ast.walk(it.node) if isinstance(n, ast.For))
    f = repo.func(MAPPER, "merge")
    cfg = CFG(f.node, may_raise=lambda x: False)
    params = f.params()
    nloops = 0
    for loop in _walk_no_nested(f.node):
        if not isinstance(loop, ast.For):
            continue
        itx = loop.iter
        if isinstance(itx, ast.Call) and isinstance(itx.func, ast.Name) and itx.func.id == "iter" and itx.args:
            itx = itx.args[0]
        if isinstance(itx, ast.Call) and isinstance(itx.func, ast.Attribute) and itx.func.attr in ("__iter__", "items") and not itx.args:
            itx = itx.func.value
        if not isinstance(itx, ast.Name):
            continue
        tnames = {n.id for n in ast.walk(loop.target) if isinstance(n, ast.Name)}
        # in-place simplification of an iterated value inside the body?
        simp = []
        for n in ast.walk(loop):
            if isinstance(n, ast.Call) and isinstance(n.func, ast.Attribute) and n.func.attr == "simplify" and isinstance(n.func.value, ast.Name) and n.func.value.id in tnames:
                simp.append(n)
        head = cfg.stmt_node.get(id(loop))
        if head is None:
            raise AnalysisError("R-OWNMERGE: loop not in CFG")
        rd = reaching_defs(cfg, itx.id).get(head.id, frozenset())
        descr, bad = [], []
        for d in sorted(rd):
            dn = cfg.nodes[d]
            if dn is cfg.entry:
                descr.append("<parameter %s>" % itx.id)
                if itx.id in params:
                    bad.append("the caller's own map (parameter %s reaches the loop unreplaced)" % itx.id)
                continue
            if isinstance(dn.ast, ast.Assign) and len(dn.ast.targets) == 1 and isinstance(dn.ast.targets[0], ast.Name):
                descr.append(norm(dn.ast))
                if not fresh_expr(dn.ast.value, cfg, dn):
                    bad.append("%s (not a new map)" % norm(dn.ast))
            else:
                descr.append(norm(dn.ast)[:60])
                bad.append(norm(dn.ast)[:60])
        nloops += 1
        out.inst("%s::for %s in %s" % (f.key, norm(loop.target), norm(loop.iter)), {"map": itx.id, "reaching_definitions": descr, "simplified_in_place": [norm(s) for s in simp]})
        if simp and yields_stored:
            for b in bad:
                out.report(f.file, f.dqual, "for %s in %s <- %s" % (norm(loop.target), itx.id, b.split(" (")[0]), loop.lineno, "merge simplifies in place (%s) the expressions it iterates from %s, which can be %s: the caller's map is changed by the merge" % (norm(simp[0]), itx.id, b))
    out.stats["loops"] = nloops
    if nloops < 2:
        raise AnalysisError("R-OWNMERGE: merge no longer iterates both input maps (found %d loops)" % nloops)
    return out


def r_vecabsorb(repo, tier):
    """C19: an undefined alternative (top, or an already widened vec) absorbs the whole vec"""
    out = RuleOut(
        "R-ABSORB",
        "vec.simplify: inside the loop over the alternatives, every statement that adds the simplified alternative (or its own "
        "alternatives) to the rebuilt list is reached only through the false branch of the test `not <alt>._is_def`, and the true "
        "branch of that test returns the undefined alternative itself: an undefined alternative (top / widened vec) is never "
        "flattened into, or dropped from, a defined result",
    )
    f = repo.func(EXPR, "vec.simplify")
    cfg = CFG(f.node, may_raise=lambda x: False)
    loop = None
    for n in _walk_no_nested(f.node):
        if isinstance(n, ast.For) and norm(n.iter) in ("self.l", "iter(self.l)"):
            loop = n
            break
    if loop is None:
        raise AnalysisError("R-ABSORB: loop over self.l not found in vec.simplify")
    el = loop.target.id if isinstance(loop.target, ast.Name) else None
    # simplified alternative variables: x = el.simplify(...)
    alts = {el}
    for n in ast.walk(loop):
        if isinstance(n, ast.Assign) and isinstance(n.targets[0], ast.Name) and any(isinstance(k, ast.Name) and k.id in alts for k in ast.walk(n.value)):
            alts.add(n.targets[0].id)
    tests = []
    for nd in cfg.nodes:
        if nd.kind == "test" and isinstance(nd.ast, ast.If):
            t = nd.ast.test
            pol = None
            if isinstance(t, ast.UnaryOp) and isinstance(t.op, ast.Not) and isinstance(t.operand, ast.Attribute) and t.operand.attr == "_is_def" and isinstance(t.operand.value, ast.Name) and t.operand.value.id in alts:
                pol = "t"  # true branch = undefined
            elif isinstance(t, ast.Attribute) and t.attr == "_is_def" and isinstance(t.value, ast.Name) and t.value.id in alts:
                pol = "f"
            if pol and any(nd.ast is x for x in ast.walk(loop)):
                tests.append((nd, pol))
    sinks = []
    for nd in cfg.nodes:
        s = nd.ast
        if nd.kind == "stmt" and isinstance(s, ast.Expr) and isinstance(s.value, ast.Call) and isinstance(s.value.func, ast.Attribute) and s.value.func.attr in ("append", "extend", "insert"):
            if any(s is x for x in ast.walk(loop)) and any(isinstance(k, ast.Name) and k.id in alts for a in s.value.args for k in ast.walk(a)):
                sinks.append(nd)
    out.inst(f.key + "::tests", {"undefined_tests": [norm(t.ast.test) for t, _ in tests], "sinks": [norm(s.ast) for s in sinks]})
    if not sinks:
        raise AnalysisError("R-ABSORB: no statement adds an alternative to the rebuilt list")
    if not tests:
        out.report(f.file, f.dqual, "undefined test", loop.lineno, "vec.simplify no longer tests `not <alt>._is_def` inside the loop: an undefined alternative is kept as an ordinary one")
        return out
    head = cfg.stmt_node[id(loop)]
    for sk in sinks:
        # is there a path loop-head(t) -> sink avoiding the defined-branch edge of every undefined-test?
        def follow(a, b, lab, _tests=tests):
            for t, pol in _tests:
                if a.id == t.id:
                    # only the 'undefined' branch may be followed (we look for a path that never takes the defined branch)
                    return lab == pol
            return True

        starts = [m for m, lab in cfg.succ[head.id] if lab == "t"]
        reach = set()
        for st in starts:
            reach |= cfg.reachable_from(st, avoid={head.id}, follow=follow)
            reach.add(st.id)
        bad = sk.id in reach
        out.inst("%s::%s" % (f.key, norm(sk.ast)), {"sink": norm(sk.ast), "reachable_without_defined_branch": bad})
        if bad:
            out.report(f.file, f.dqual, norm(sk.ast), sk.ast.lineno, "`%s` can be reached without having taken the defined branch of `%s`: an undefined alternative (top or a widened vec) is merged into the list instead of absorbing the result" % (norm(sk.ast), norm(tests[0][0].ast.test)))
    # the undefined branch returns the alternative itself
    for t, pol in tests:
        succ = [m for m, lab in cfg.succ[t.id] if lab == pol]
        for m in succ:
            ok = m.kind in ("return",) or isinstance(m.ast, ast.Return)
            val = norm(m.ast.value) if ok and m.ast.value is not None else None
            out.inst("%s::undefined-branch %s" % (f.key, norm(t.ast.test)), {"first_statement": norm(m.ast)[:60] if m.ast is not None else m.kind})
            if not ok or val not in alts:
                out.report(f.file, f.dqual, "undefined branch of %s" % norm(t.ast.test), t.ast.lineno, "the undefined branch does not return the undefined alternative itself")
    return out


_MUT_METHODS = {"append", "extend", "insert", "update", "pop", "clear", "remove", "add", "setdefault", "popitem", "sort", "reverse", "setmemory", "delayed", "update_delayed", "restruct", "safe_update", "__setitem__", "write", "cut"}


def r_mappure(repo, tier):
    out = RuleOut(
        "R-MAPPURE",
        "the map operations that return a new map (mapper.eval, rcompose, use, usemmap, assume, <<, >> -- the methods all of whose "
        "returns are fresh maps -- and merge()) never modify a map they receive: no attribute/item store, augmented assignment or "
        "mutating method call whose receiver is rooted at a parameter (self included) or at a local that only aliases one",
    )
    fresh, info, _ = fresh_mapper_methods(repo)
    m = repo.mod(MAPPER)
    c = m.classes["mapper"]
    funcs = [c.methods[n] for n in sorted(fresh)] + [repo.func(MAPPER, "merge")]
    nsites = 0
    for f in funcs:
        params = set(f.params())
        # locals that only alias a parameter: x = p  (single assignment from a bare parameter name)
        alias = {}
        for n in _walk_no_nested(f.node):
            if isinstance(n, ast.Assign) and len(n.targets) == 1 and isinstance(n.targets[0], ast.Name) and isinstance(n.value, ast.Name) and n.value.id in params:
                alias[n.targets[0].id] = n.value.id
        # a parameter re-bound to a fresh value is no longer the caller's object: only flow-insensitive names that are
        # never re-bound count as 'the parameter'
        rebound = {n.id for n in _walk_no_nested(f.node) if isinstance(n, ast.Name) and isinstance(n.ctx, ast.Store)}

        def root(e):
            d = 0
            while isinstance(e, (ast.Attribute, ast.Subscript)):
                e = e.value
                d += 1
            if isinstance(e, ast.Name):
                nm = alias.get(e.id, e.id)
                if nm in params and nm not in rebound:
                    return nm, d
            return None, d

        for n in _walk_no_nested(f.node):
            hits = []
            if isinstance(n, (ast.Assign, ast.AugAssign)):
                for t in n.targets if isinstance(n, ast.Assign) else [n.target]:
                    for e in t.elts if isinstance(t, (ast.Tuple, ast.List)) else [t]:
                        r, d = root(e)
                        if r and d >= 1:
                            hits.append((r, norm(n)))
            elif isinstance(n, ast.Call) and isinstance(n.func, ast.Attribute) and n.func.attr in _MUT_METHODS:
                r, d = root(n.func.value)
                if r:
                    hits.append((r, norm(n)))
            elif isinstance(n, ast.Delete):
                for t in n.targets:
                    r, d = root(t)
                    if r and d >= 1:
                        hits.append((r, norm(n)))
            for r, txt in hits:
                nsites += 1
                out.report(f.file, f.dqual, "%s mutated: %s" % (r, txt[:70]), n.lineno, "%s returns a new map but `%s` modifies the map it received as %s: the caller's map changes as a side effect of deriving another one" % (f.dqual, txt[:80], r))
        out.inst(f.key, {"function": f.dqual, "parameters": sorted(params), "aliases": alias})
    out.stats["functions"] = len(funcs)
    if len(funcs) < 6:
        raise AnalysisError("R-MAPPURE: only %d functions" % len(funcs))
    return out


MEMORY = "amoco/system/memory.py"


def _fresh_copy_expr(v):
    if isinstance(v, ast.Call):
        if isinstance(v.func, ast.Attribute) and v.func.attr in ("copy", "__copy__", "__deepcopy__"):
            return True
        if isinstance(v.func, ast.Name) and v.func.id not in ("iter", "next", "getattr", "id"):
            return True  # constructor / conversion building a new object
        return False
    if isinstance(v, ast.IfExp):
        return _fresh_copy_expr(v.body) and _fresh_copy_expr(v.orelse)
    if isinstance(v, ast.Constant):
        return True
    return False


def r_deepcopy(repo, tier):
    out = RuleOut(
        "R-DEEPCOPY",
        "copy() of the mutable memory containers (MemoryMap, MemoryZone) hands every element of the source to the new container "
        "through a call that builds a new object (x.copy() / a constructor) on every path -- a shared zone or memory object would be "
        "written in place through either map (mapper.eval/use/assume rely on mmap.copy() to own their memory)",
    )
    m = repo.mod(MEMORY)
    n = 0
    for cname in ("MemoryMap", "MemoryZone"):
        c = m.classes.get(cname)
        if c is None or "copy" not in c.methods:
            raise AnalysisError("anchor vanished: %s.copy" % cname)
        f = c.methods["copy"]
        for x in _walk_no_nested(f.node):
            cands = []  # (element variable names, value expression, node)
            if isinstance(x, ast.For) and "self" in {k.id for k in ast.walk(x.iter) if isinstance(k, ast.Name)}:
                tn = {k.id for k in ast.walk(x.target) if isinstance(k, ast.Name)}
                for s in ast.walk(x):
                    if isinstance(s, ast.Assign) and isinstance(s.targets[0], (ast.Subscript, ast.Attribute)):
                        cands.append((tn, s.value, s))
                    elif isinstance(s, ast.Expr) and isinstance(s.value, ast.Call) and isinstance(s.value.func, ast.Attribute) and s.value.func.attr in ("append", "insert", "add", "addtomap", "extend") and s.value.args:
                        cands.append((tn, s.value.args[-1], s))
            if isinstance(x, (ast.ListComp, ast.GeneratorExp, ast.SetComp)) and "self" in {k.id for g in x.generators for k in ast.walk(g.iter) if isinstance(k, ast.Name)}:
                tn = {k.id for g in x.generators for k in ast.walk(g.target) if isinstance(k, ast.Name)}
                cands.append((tn, x.elt, x))
            if isinstance(x, ast.DictComp) and "self" in {k.id for g in x.generators for k in ast.walk(g.iter) if isinstance(k, ast.Name)}:
                tn = {k.id for g in x.generators for k in ast.walk(g.target) if isinstance(k, ast.Name)}
                cands.append((tn, x.value, x))
            for tn, v, node in cands:
                if not ({k.id for k in ast.walk(v) if isinstance(k, ast.Name)} & tn):
                    continue
                n += 1
                ok = _fresh_copy_expr(v)
                out.inst("%s::%s" % (f.key, norm(v)), {"method": f.dqual, "element_value": norm(v), "new_object_on_every_path": ok})
                if not ok:
                    out.report(MEMORY, f.dqual, "element %s" % norm(v), node.lineno, "%s puts `%s` into the copy: on some path this is the source's own element, so the copy and the original share a mutable zone/object" % (f.dqual, norm(v)))
    out.stats["elements"] = n
    if n < 2:
        raise AnalysisError("R-DEEPCOPY: element transfers of MemoryMap.copy / MemoryZone.copy not found")
    return out
