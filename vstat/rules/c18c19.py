"""C18 (sweeps/blocks partition the code) and C19 (merge over-approximates both maps)."""
import ast

from ..cfg import CFG, _walk_no_nested, reaching_defs
from ..harness import RuleOut
from ..index import AnalysisError, norm
from . import xfer

LSWEEP = "amoco/sa/lsweep.py"
CODE = "amoco/code.py"
MAPPER = "amoco/cas/mapper.py"
EXPR = "amoco/cas/expressions.py"


def names_in(e):
    return {n.id for n in _walk_no_nested(e) if isinstance(n, ast.Name)}


# =========================================================================================== C18
def r_sweep(repo, tier):
    out = RuleOut(
        "R-SWEEP",
        "lsweep.sequence: between two consecutive fetches (read_instruction at the cursor) the cursor is advanced exactly once, "
        "by the length of the instruction just fetched (<i>.length or len(<i>.bytes)), and that instruction is yielded exactly "
        "once; the sweep API keeps no state on self",
    )
    f = repo.func(LSWEEP, "lsweep.sequence")
    fn = f.node
    cfg = CFG(fn, may_raise=lambda x: False)
    fetch = None
    ivar = cur = None
    for nd in cfg.nodes:
        s = nd.ast
        if nd.kind == "stmt" and isinstance(s, ast.Assign) and isinstance(s.value, ast.Call) and isinstance(s.value.func, ast.Attribute) and s.value.func.attr == "read_instruction":
            fetch = nd
            ivar = s.targets[0].id if isinstance(s.targets[0], ast.Name) else None
            a0 = s.value.args[0] if s.value.args else None
            cur = a0.id if isinstance(a0, ast.Name) else None
        elif nd.kind == "test" and s is not None and hasattr(s, "test"):
            # `while (i := p.read_instruction(loc)) is not None:` -- the loop test is the fetch
            for w in ast.walk(s.test):
                if isinstance(w, ast.NamedExpr) and isinstance(w.value, ast.Call) and isinstance(w.value.func, ast.Attribute) and w.value.func.attr == "read_instruction":
                    fetch = nd
                    ivar = w.target.id
                    a0 = w.value.args[0] if w.value.args else None
                    cur = a0.id if isinstance(a0, ast.Name) else None
    if fetch is None or ivar is None or cur is None:
        raise AnalysisError("R-SWEEP: fetch statement `i = p.read_instruction(loc)` not found in lsweep.sequence")

    def is_adv(s):
        if isinstance(s, ast.AugAssign) and isinstance(s.target, ast.Name) and s.target.id == cur and isinstance(s.op, ast.Add):
            return s.value
        if isinstance(s, ast.Assign) and isinstance(s.targets[0], ast.Name) and s.targets[0].id == cur and isinstance(s.value, ast.BinOp) and isinstance(s.value.op, ast.Add):
            l, r = s.value.left, s.value.right
            if isinstance(l, ast.Name) and l.id == cur:
                return r
            if isinstance(r, ast.Name) and r.id == cur:
                return l
        return None

    def good_step(v):
        t = norm(v)
        return t in ("%s.length" % ivar, "len(%s.bytes)" % ivar, "len(%s)" % ivar)

    def is_yield_i(s):
        return isinstance(s, ast.Expr) and isinstance(s.value, ast.Yield) and isinstance(s.value.value, ast.Name) and s.value.value.id == ivar

    # count advances / yields on every path fetch -> fetch
    def transfer(node, st, label):
        a, y, bad = st
        if node is fetch:
            return (0, 0, bad)
        s = node.ast
        if node.kind == "stmt" and s is not None:
            v = is_adv(s)
            if v is not None:
                a += 1
                if not good_step(v):
                    bad = True
            elif any(isinstance(t, ast.Name) and t.id == cur for t in (s.targets if isinstance(s, ast.Assign) else [])):
                bad = True
            if is_yield_i(s):
                y += 1
        return (min(a, 3), min(y, 3), bad)

    states = {}
    work = [(fetch, (0, 0, False))]
    results = []
    seen = set()
    while work:
        nd, st = work.pop()
        for m, lab in cfg.succ[nd.id]:
            o = transfer(nd, st, lab) if nd is not fetch else (0, 0, st[2])
            if m is fetch:
                results.append(o)
                continue
            if m in (cfg.exit, cfg.raise_):
                continue
            k = (m.id, o)
            if k in seen:
                continue
            seen.add(k)
            work.append((m, o))
    out.inst(f.key, {"fetch": norm(fetch.ast.test if fetch.kind == "test" else fetch.ast), "cursor": cur, "instruction": ivar, "paths_back_to_fetch": sorted(set(results))})
    if not results:
        out.report(LSWEEP, f.dqual, "no path back to the fetch", fetch.line, "the sweep loop never fetches a second instruction")
    for a, y, bad in sorted(set(results)):
        if a != 1 or bad:
            out.report(LSWEEP, f.dqual, "cursor %s advanced %d time(s)%s" % (cur, a, " by something else than the fetched length" if bad else ""), fetch.line, "between two fetches the cursor %s must be advanced exactly once by %s.length (found %d advance(s)%s): consecutive instructions would overlap or leave gaps" % (cur, ivar, a, ", not by the fetched instruction's length" if bad else ""))
        if y != 1:
            out.report(LSWEEP, f.dqual, "instruction yielded %d time(s)" % y, fetch.line, "a fetched instruction must be yielded exactly once before the next fetch (found %d)" % y)
    # statelessness of the sweep API
    m = repo.mod(LSWEEP)
    c = m.classes.get("lsweep")
    for mname in ("sequence", "iterblocks", "getblock"):
        g = c.methods.get(mname)
        if g is None:
            raise AnalysisError("anchor vanished: lsweep.%s" % mname)
        st = []
        for x in _walk_no_nested(g.node):
            tg = x.targets if isinstance(x, ast.Assign) else ([x.target] if isinstance(x, ast.AugAssign) else [])
            for t in tg:
                r = t
                while isinstance(r, (ast.Attribute, ast.Subscript)):
                    r = r.value
                if isinstance(r, ast.Name) and r.id == "self" and t is not r:
                    st.append((x, t))
        out.inst("%s::stateless" % g.key, {"method": g.dqual, "stores_on_self": [norm(t) for _, t in st]})
        for x, t in st:
            out.report(LSWEEP, g.dqual, "store %s" % norm(t), x.lineno, "%s keeps state on self (%s): blocks are mutable (the CFG cuts them in place), so handing out a remembered block makes the result depend on what was done with earlier ones" % (g.dqual, norm(t)))
    return out


def r_blocks(repo, tier):
    out = RuleOut(
        "R-XFER",
        "lsweep.iterblocks puts every swept instruction into the current block (every path through the loop body appends it), "
        "hands every closed block over by yielding it before the accumulator is reset, flushes a non-empty accumulator after "
        "the loop, and clears the delay-slot flag whenever a block is closed; block.__getitem__ builds its position table "
        "from every instruction; block.length/raw/support are derived from the instruction list only",
    )
    f = repo.func(LSWEEP, "lsweep.iterblocks")
    fn = f.node
    loop = xfer.find_loop(fn, lambda n: isinstance(n, ast.For) and isinstance(n.target, ast.Name))
    if loop is None:
        raise AnalysisError("R-XFER: sweep loop not found in lsweep.iterblocks")
    ivar = loop.target.id

    def _acc_of(lp, iv):
        for x in ast.walk(lp):
            if isinstance(x, ast.Call) and isinstance(x.func, ast.Attribute) and x.func.attr == "append" and x.args and isinstance(x.args[0], ast.Name) and x.args[0].id == iv and isinstance(x.func.value, ast.Name):
                return x.func.value.id
        return None

    # accumulator: the list that receives `.append(ivar)`
    acc = _acc_of(loop, ivar)
    if acc is None:
        # the grouping may live in a generator method of the class that iterblocks iterates (`for run in self._runs(seq)`):
        # the same obligations are then checked on that generator, where a closed run is handed over by `yield`
        cls = repo.mod(LSWEEP).classes.get("lsweep")
        for c in ast.walk(loop.iter):
            if isinstance(c, ast.Call) and isinstance(c.func, ast.Attribute) and isinstance(c.func.value, ast.Name) and c.func.value.id in ("self", "cls") and cls is not None and c.func.attr in cls.methods and c.func.attr != "sequence":
                h = cls.methods[c.func.attr]
                hl = xfer.find_loop(h.node, lambda n: isinstance(n, ast.For) and isinstance(n.target, ast.Name) and isinstance(n.iter, ast.Name) and n.iter.id in h.params())
                if hl is not None and any(isinstance(y, ast.Yield) for y in ast.walk(h.node)) and _acc_of(hl, hl.target.id):
                    f, fn, loop, ivar = h, h.node, hl, hl.target.id
                    acc = _acc_of(hl, ivar)
                    break
    if acc is None:
        out.inst(f.key, {"loop": norm(loop).split(":")[0]})
        out.report(LSWEEP, f.dqual, "no append of %s" % ivar, loop.lineno, "no statement appends the swept instruction to a block accumulator")
        return out
    res = xfer.check_loop(fn, loop, {ivar}, {acc}, dedup_ok=False)
    out.inst(f.key + "::append", {"loop": norm(loop).split(":")[0], "accumulator": acc, "sinks": res.sinks, "dropping_paths": len(res.bad_paths)})
    for p in res.bad_paths[:2]:
        out.report(LSWEEP, f.dqual, "instruction not appended", loop.lineno, "a path through the sweep loop does not append the instruction to the block accumulator %s: %s" % (acc, p))
    # hand-over before reset
    cfg = CFG(fn, may_raise=lambda x: False)
    def _swap(s0):
        """`run, acc = acc, []` -> 'run' (the name that receives the accumulator while it is emptied)"""
        if isinstance(s0, ast.Assign) and len(s0.targets) == 1 and isinstance(s0.targets[0], ast.Tuple) and isinstance(s0.value, ast.Tuple) and len(s0.targets[0].elts) == len(s0.value.elts):
            got = emptied = None
            for t, v in zip(s0.targets[0].elts, s0.value.elts):
                if isinstance(t, ast.Name) and isinstance(v, ast.Name) and v.id == acc and t.id != acc:
                    got = t.id
                if isinstance(t, ast.Name) and t.id == acc and isinstance(v, ast.List) and not v.elts:
                    emptied = True
            if got and emptied:
                return got
        return None

    resets = [nd for nd in cfg.nodes if nd.kind == "stmt" and ((isinstance(nd.ast, ast.Assign) and any(isinstance(t, ast.Name) and t.id == acc for t in nd.ast.targets) and isinstance(nd.ast.value, ast.List) and not nd.ast.value.elts) or _swap(nd.ast))]
    def _uses_acc(call):
        if isinstance(call, ast.Name) and call.id == acc:
            return True   # the accumulator itself is handed over (`yield pending`)
        return isinstance(call, ast.Call) and any(isinstance(a, ast.Name) and a.id == acc for a in call.args)

    # a block is "built" by any call that takes the accumulator (code.block(l), or a helper such as self._newblock(l)),
    # either assigned to a name that is yielded later, or yielded directly
    builds = []
    direct = set()
    for nd in cfg.nodes:
        s0 = nd.ast
        if nd.kind != "stmt" or s0 is None:
            continue
        if isinstance(s0, ast.Assign) and (_uses_acc(s0.value) or _swap(s0)):
            builds.append(nd)
        elif isinstance(s0, ast.Expr) and isinstance(s0.value, ast.Yield) and _uses_acc(s0.value.value):
            builds.append(nd)
            direct.add(nd.id)
    yields = {}
    for nd in cfg.nodes:
        if nd.kind == "stmt" and isinstance(nd.ast, ast.Expr) and isinstance(nd.ast.value, ast.Yield) and isinstance(nd.ast.value.value, ast.Name):
            yields.setdefault(nd.ast.value.value.id, set()).add(nd.id)
    head = cfg.stmt_node[id(loop)]
    init = [r for r in resets if r.line < loop.lineno]
    inloop = [r for r in resets if r.line > loop.lineno]
    for r in inloop:
        # every path from the loop head to this reset passes a build of a block from acc
        reach = cfg.reachable_from(head, avoid={b.id for b in builds}, follow=lambda a, b, lab: lab != "back")
        ok = r.id not in reach
        out.inst(f.key + "::reset@%d" % r.line, {"reset": norm(r.ast), "preceded_by_block_build": ok})
        if not ok:
            out.report(LSWEEP, f.dqual, "reset %s without hand-over" % norm(r.ast), r.line, "the accumulator is emptied on a path where no block was built from it: the instructions collected so far are lost")
    for b in builds:
        if b.id in direct:
            out.inst(f.key + "::build@%d" % b.line, {"build": norm(b.ast), "yielded_on_all_paths": True})
            continue
        bv = _swap(b.ast) or (b.ast.targets[0].id if isinstance(b.ast.targets[0], ast.Name) else None)
        ys = yields.get(bv, set())
        # from the build, every path to the loop head / exit passes a yield of the block
        p = cfg.some_path(b, {head.id, cfg.exit.id}, avoid=ys)
        out.inst(f.key + "::build@%d" % b.line, {"build": norm(b.ast), "yielded_on_all_paths": p is None})
        if p is not None:
            out.report(LSWEEP, f.dqual, "block %s not yielded" % norm(b.ast), b.line, "a block is built from the accumulator but a path reaches the next iteration/exit without yielding it (%s)" % cfg.describe_path(p))
    # flush after the loop
    post = [b for b in builds if b.line > (loop.end_lineno or loop.lineno)]
    out.inst(f.key + "::flush", {"post_loop_builds": [norm(b.ast) for b in post]})
    if not post:
        out.report(LSWEEP, f.dqual, "no flush of %s after the loop" % acc, loop.end_lineno or loop.lineno, "instructions collected after the last control-flow instruction are never put into a block")
    # delay-slot flag: any boolean flag set True in the loop and tested in the block-closing condition must be cleared when a block is built in the loop
    flags = set()
    for x in ast.walk(loop):
        if isinstance(x, ast.Assign) and isinstance(x.targets[0], ast.Name) and isinstance(x.value, ast.Constant) and x.value.value is True:
            flags.add(x.targets[0].id)
    for fl in sorted(flags):
        clears = {nd.id for nd in cfg.nodes if nd.kind == "stmt" and isinstance(nd.ast, ast.Assign) and any(isinstance(t, ast.Name) and t.id == fl for t in nd.ast.targets) and isinstance(nd.ast.value, ast.Constant) and nd.ast.value.value is False}
        for b in builds:
            if b.line > (loop.end_lineno or loop.lineno):
                continue
            p = cfg.some_path(b, {head.id}, avoid=clears)
            out.inst(f.key + "::flag %s@%d" % (fl, b.line), {"flag": fl, "cleared_after_block": p is None})
            if p is not None:
                out.report(LSWEEP, f.dqual, "flag %s not cleared after closing a block" % fl, b.line, "the flag %s, which makes the next instruction close a block, is still set when the loop continues after a block was emitted: every later instruction ends a block of its own (blocks are no longer maximal runs)" % fl)
    # block.__getitem__: position table built from every instruction
    g = repo.func(CODE, "block.__getitem__")
    l2 = xfer.find_loop(g.node, lambda n: isinstance(n, ast.For) and norm(n.iter) == "self.instr")
    if l2 is None:
        # the table may be built by a comprehension over self.instr (here or in a method of block that __getitem__ calls):
        # it is complete when the comprehension has no filter and its element is the instruction's length
        bcls = repo.mod(CODE).classes.get("block")
        nodes = [g.node] + [bcls.methods[c.func.attr].node for c in ast.walk(g.node) if isinstance(c, ast.Call) and isinstance(c.func, ast.Attribute) and isinstance(c.func.value, ast.Name) and c.func.value.id == "self" and bcls is not None and c.func.attr in bcls.methods]
        comps = [(c, gen) for nd_ in nodes for c in ast.walk(nd_) if isinstance(c, (ast.GeneratorExp, ast.ListComp)) for gen in c.generators if norm(gen.iter) == "self.instr"]
        if not comps:
            raise AnalysisError("R-XFER: position loop vanished in block.__getitem__")
        for c, gen in comps:
            whole = not gen.ifs and any(isinstance(a, ast.Attribute) and a.attr == "length" for a in ast.walk(c.elt))
            out.inst(g.key + "::comprehension@%d" % c.lineno, {"table": norm(c), "covers_every_instruction": whole})
            if gen.ifs:
                out.report(CODE, g.dqual, "position table incomplete", c.lineno, "block.__getitem__ does not record the end position of every instruction: slices at instruction boundaries are rejected or mis-cut")
    else:
        xv = {n.id for n in ast.walk(l2.target) if isinstance(n, ast.Name)}
        r2 = xfer.check_loop(g.node, l2, xv, {"pos"}, dedup_ok=False)
        out.inst(g.key, {"loop": norm(l2).split(":")[0], "sinks": r2.sinks, "dropping_paths": len(r2.bad_paths)})
        if not r2.sinks or r2.bad_paths:
            out.report(CODE, g.dqual, "position table incomplete", l2.lineno, "block.__getitem__ does not record the end position of every instruction: slices at instruction boundaries are rejected or mis-cut")
    # derived properties
    c = repo.mod(CODE).classes.get("block")
    for mname in ("length", "raw", "support", "address"):
        h = c.methods.get(mname)
        if h is None:
            raise AnalysisError("anchor vanished: block.%s" % mname)
        attrs = {a.attr for a in ast.walk(h.node) if isinstance(a, ast.Attribute) and isinstance(a.value, ast.Name) and a.value.id == "self"}
        ok = attrs <= {"instr", "address", "length", "support"}
        out.inst(h.key, {"property": mname, "reads_self": sorted(attrs)})
        if not ok:
            out.report(CODE, h.dqual, "block.%s reads %s" % (mname, sorted(attrs - {"instr", "address", "length", "support"})), h.node.lineno, "block.%s must be derived from the instruction list only (a cached copy goes stale when the block is cut)" % mname)
    return out


# =========================================================================================== C19
def r_merge(repo, tier):
    out = RuleOut(
        "R-XFER",
        "merge(): both loops store, for every location they visit, a value that depends on the loop's own value AND on the other "
        "map's value for that location (or top); the second loop skips a location only when the merged map already has it; "
        "a vec-based pointer is expanded with its segment and displacement; vec.simplify drops an alternative only as a "
        "duplicate or by returning an absorbing value",
    )
    f = repo.func(MAPPER, "merge")
    fn = f.node
    loops = [l for l in fn.body if isinstance(l, ast.For)]
    if len(loops) < 2:
        raise AnalysisError("R-XFER: merge() no longer has two top-level loops")
    # accumulator = the mapper returned
    ret = [r for r in ast.walk(fn) if isinstance(r, ast.Return) and isinstance(r.value, ast.Name)]
    if not ret:
        raise AnalysisError("R-XFER: merge() does not return a name")
    # the accumulator is what the function returns at its end (the last top-level statement); every other return is checked below
    last = fn.body[-1]
    acc = last.value.id if isinstance(last, ast.Return) and isinstance(last.value, ast.Name) else ret[-1].value.id
    cfg0 = CFG(fn, may_raise=lambda x: False)
    heads = [cfg0.stmt_node[id(l)] for l in loops[:2]]
    for r in [x for x in ast.walk(fn) if isinstance(x, ast.Return)]:
        nd = cfg0.stmt_node.get(id(r))
        if nd is None:
            continue
        skipped = [k + 1 for k, h in enumerate(heads) if nd.id in cfg0.reachable_from(cfg0.entry, avoid={h.id})]
        same = isinstance(r.value, ast.Name) and r.value.id == acc
        out.inst("%s::%s@%s" % (f.key, norm(r), "end" if r is last else "early"), {"return": norm(r), "returns_merged_map": same, "loops_that_can_be_skipped": skipped})
        if skipped or not same:
            out.report(MAPPER, f.dqual, "%s skips loop %s" % (norm(r), skipped or "-"), r.lineno, "merge can return `%s` without having run the transfer loop(s) %s over its input maps: locations of the skipped map (or the 'unchanged' alternative of a map that wrote nothing) are missing from the result" % (norm(r.value) if r.value is not None else "None", skipped or "(returns another object than the merged map %s)" % acc))
    maps = []  # the (assumed) input maps
    for s in fn.body:
        if isinstance(s, ast.Assign) and isinstance(s.targets[0], ast.Name) and isinstance(s.value, ast.Call) and isinstance(s.value.func, ast.Attribute) and s.value.func.attr == "assume":
            maps.append(s.targets[0].id)
    for k, loop in enumerate(loops[:2]):
        xv = {n.id for n in ast.walk(loop.target) if isinstance(n, ast.Name)}
        own = norm(loop.iter)
        other = [m for m in maps if m != own]
        res = xfer.check_loop(fn, loop, xv, {acc})
        out.inst("%s::loop%d" % (f.key, k + 1), {"loop": norm(loop).split(":")[0], "sinks": res.sinks, "paths_without_store": len(res.bad_paths), "skips_on_membership_test": len(res.exempt)})
        if not res.sinks:
            out.report(MAPPER, f.dqual, "loop %d stores nothing" % (k + 1), loop.lineno, "no statement of the loop stores into the merged map")
        for p in res.bad_paths[:2]:
            out.report(MAPPER, f.dqual, "loop over %s drops a location" % own, loop.lineno, "a path through the loop over %s reaches the next location without storing a merged value and without the `already merged` test: the location is left untouched in the result (%s)" % (own, p))
        if k == 0 and res.exempt:
            out.report(MAPPER, f.dqual, "first loop skips locations", loop.lineno, "the first loop must visit every location of its map")
        # def-use on the stored value
        cfg = CFG(fn, may_raise=lambda x: False)
        for nd in cfg.nodes:
            s = nd.ast
            if nd.kind == "stmt" and isinstance(s, ast.Assign) and isinstance(s.targets[0], ast.Subscript) and norm(s.targets[0].value) == acc and loop.lineno <= s.lineno <= (loop.end_lineno or s.lineno):
                deps = _deps(cfg, fn, nd, s.value, loop, depth=0)
                own_ok = bool(deps & xv - {norm(loop.target.elts[0]) if isinstance(loop.target, ast.Tuple) else ""})
                other_ok = any(o in deps for o in other) or any(d.startswith("top(") for d in deps)
                ownval = [e.id for e in loop.target.elts[1:]] if isinstance(loop.target, ast.Tuple) else []
                own_ok = any(v in deps for v in ownval) or norm(s.value).startswith("top(")  # top is absorbing: it covers every alternative
                out.inst("%s::store%d" % (f.key, k + 1), {"store": norm(s), "depends_on": sorted(deps)[:12], "own_value": own_ok, "other_map_value": other_ok})
                if not own_ok:
                    out.report(MAPPER, f.dqual, "merged value ignores %s's own value" % own, s.lineno, "the value stored for a location of %s does not depend on that map's value %s" % (own, ownval))
                if not other_ok:
                    out.report(MAPPER, f.dqual, "merged value ignores the other map", s.lineno, "the value stored for a location of %s does not depend on the other map's value for it (%s[...]) nor on top" % (own, other))
    # every definition of the "other side" value inside a loop reads the OTHER map (or is top): a branch that reads the loop's own
    # map again makes the merged value list one side twice
    for k, loop in enumerate(loops[:2]):
        own = norm(loop.iter)
        other = [m_ for m_ in maps if m_ != own]
        ownval = {e.id for e in loop.target.elts[1:]} if isinstance(loop.target, ast.Tuple) else set()
        for a in ast.walk(loop):
            if not (isinstance(a, ast.Assign) and isinstance(a.targets[0], ast.Name)):
                continue
            tgt = a.targets[0].id
            if tgt in ownval or tgt in maps:
                continue
            reads = [x for x in ast.walk(a.value) if isinstance(x, ast.Subscript) and isinstance(x.value, ast.Name) and x.value.id in maps and isinstance(x.ctx, ast.Load)]
            if not reads:
                continue
            wrong = [x for x in reads if x.value.id == own]
            out.inst("%s::loop%d other-side %s" % (f.key, k + 1, norm(a)[:60]), {"loop_over": own, "definition": norm(a)[:90], "reads": sorted({x.value.id for x in reads})})
            for x in wrong:
                out.report(MAPPER, f.dqual, "loop over %s reads %s again: %s" % (own, own, norm(x)[:60]), x.lineno, "inside the loop over %s the value taken for the other side is read from %s itself (`%s`) instead of %s: the merged value lists one map's value twice and drops the other's" % (own, own, norm(x)[:70], other))
    # the other map is *read at a location* (m[loc]: locations are expressed in the input state), never *applied* to it
    # (m(x) evaluates x -- including the address -- in m's post-state)
    nreads = 0
    scopes_ = [(fn, set(maps), f.dqual)]
    modm = repo.mod(MAPPER)
    for c in ast.walk(fn):
        if isinstance(c, ast.Call) and isinstance(c.func, ast.Name) and c.func.id in modm.functions and c.func.id != "merge":
            g = modm.functions[c.func.id]
            ps = g.params()
            recv = {ps[k] for k, a in enumerate(c.args) if isinstance(a, ast.Name) and a.id in maps and k < len(ps)}
            if recv:
                scopes_.append((g.node, recv, g.dqual))
    for node, names, where in scopes_:
        for c in ast.walk(node):
            if isinstance(c, ast.Subscript) and isinstance(c.value, ast.Name) and c.value.id in names and isinstance(c.ctx, ast.Load):
                nreads += 1
            if isinstance(c, ast.Call) and isinstance(c.func, ast.Name) and c.func.id in names:
                out.report(MAPPER, where, "applies %s" % norm(c)[:70], c.lineno, "merge fetches the other map's value with the call form `%s`: mapper.__call__ evaluates the location's address in that map's post-state, while map locations are expressed in the input state (the index form `%s[...]` used by the sibling fetches reads the location)" % (norm(c)[:70], c.func.id))
    out.inst("%s::location-reads" % f.key, {"index_form_reads": nreads, "maps": maps, "scopes": [w for _, _, w in scopes_]})
    if nreads < 1:
        raise AnalysisError("R-XFER: merge() no longer reads the other map by location (anchor changed)")
    # pointer expansion: every mem(...) built from elements of <loc>.base.l uses <loc>.seg and <loc>.disp
    m = repo.mod(MAPPER)
    nexp = 0
    for g in m.functions.values():
        for comp in ast.walk(g.node):
            if isinstance(comp, (ast.ListComp, ast.GeneratorExp)) and comp.generators and norm(comp.generators[0].iter).endswith(".base.l"):
                locname = norm(comp.generators[0].iter)[: -len(".base.l")]
                nexp += 1
                used = set()
                alias = {}
                for x in ast.walk(g.node):
                    if isinstance(x, ast.Assign) and isinstance(x.targets[0], ast.Name) and norm(x.value) in ("%s.seg" % locname, "%s.disp" % locname):
                        alias[x.targets[0].id] = norm(x.value).split(".")[-1]
                for x in ast.walk(comp.elt):
                    if isinstance(x, ast.Attribute) and norm(x.value) == locname and x.attr in ("seg", "disp"):
                        used.add(x.attr)
                    if isinstance(x, ast.Name) and x.id in ("seg", "disp"):
                        used.add(x.id)
                    if isinstance(x, ast.Name) and x.id in alias:
                        used.add(alias[x.id])
                out.inst("%s::expand@%d" % (g.key, comp.lineno), {"function": g.dqual, "expansion": norm(comp)[:90], "uses": sorted(used)})
                for need in ("seg", "disp"):
                    if need not in used:
                        out.report(MAPPER, g.dqual, "pointer expansion drops %s.%s" % (locname, need), comp.lineno, "a pointer whose base is a vec is expanded into one memory location per alternative without its %s: the other map is read at the wrong address and the merged value misses the real one" % ("displacement" if need == "disp" else "segment"))
    if nexp < 2:
        raise AnalysisError("R-XFER: vec-pointer expansions not found in mapper.py")
    # vec.simplify
    v = repo.func(EXPR, "vec.simplify")
    vloops = [l for l in ast.walk(v.node) if isinstance(l, ast.For)]
    # accumulators: the lists the loops fill -- locals initialised to [] in the function, and self.l
    list_locals = {t.id for a in ast.walk(v.node) if isinstance(a, ast.Assign) and isinstance(a.value, ast.List) and not a.value.elts for t in a.targets if isinstance(t, ast.Name)}
    for k, loop in enumerate(vloops[:2]):
        xv = {n.id for n in ast.walk(loop.target) if isinstance(n, ast.Name)}
        accs = set(list_locals) | {"self.l"}
        res = xfer.check_loop(v.node, loop, xv, accs)
        out.inst("%s::loop%d" % (v.key, k + 1), {"loop": norm(loop).split(":")[0], "sinks": res.sinks, "paths_without_store": len(res.bad_paths), "dedup_skips": len(res.exempt)})
        if not res.sinks:
            out.report(EXPR, v.dqual, "loop %d keeps nothing" % (k + 1), loop.lineno, "vec.simplify no longer collects the alternatives")
        for p in res.bad_paths[:2]:
            out.report(EXPR, v.dqual, "alternative dropped in loop %d" % (k + 1), loop.lineno, "vec.simplify drops an alternative that is neither a duplicate nor absorbed by an undefined/top result (%s)" % p)
    return out


def _deps(cfg, fn, node, expr, loop, depth):
    """names and call texts the expression depends on inside the loop (via reaching definitions, bounded)"""
    out = set()
    for x in ast.walk(expr):
        if isinstance(x, ast.Call):
            out.add(norm(x)[:60])
        if isinstance(x, ast.Subscript):
            out.add(norm(x)[:60])
    if depth > 6:
        return out | names_in(expr)
    for name in names_in(expr):
        out.add(name)
        rd = reaching_defs(cfg, name).get(node.id, frozenset())
        for d in rd:
            dn = cfg.nodes[d]
            if dn.ast is None or dn is cfg.entry or dn is node:
                continue
            if not (loop.lineno <= dn.line <= (loop.end_lineno or dn.line)):
                continue
            v = dn.ast.value if isinstance(dn.ast, (ast.Assign, ast.AugAssign)) else None
            if v is not None:
                out |= _deps(cfg, fn, dn, v, loop, depth + 1)
    return out


# ======================================================================================= graph.add_vertex registers what it is given
def r_addvertex(repo, tier):
    out = RuleOut(
        "R-ADDVERTEX",
        "cfg.graph.add_vertex: every normal return is reached only through a call that registers the vertex in this graph "
        "(the base class add_vertex, or the cutting helper __cut_add_vertex), and every return of a block vertex that is not the "
        "double-overlay escape also passes the write into the address support (support.write): no shortcut returns a block that "
        "this graph's support does not hold",
    )
    f = repo.func("amoco/cfg.py", "graph.add_vertex")
    cfg = CFG(f.node, may_raise=lambda x: False)
    reg, wr = set(), set()
    for nd in cfg.nodes:
        if nd.ast is None or nd.kind not in ("stmt", "return"):
            continue
        for c in ast.walk(nd.ast):
            if isinstance(c, ast.Call) and isinstance(c.func, ast.Attribute):
                if c.func.attr == "add_vertex" and (norm(c.func.value).startswith("super(") or norm(c.func.value) == "self"):
                    reg.add(nd.id)  # the base class registers; a recursive call registers by induction
                elif c.func.attr.endswith("__cut_add_vertex"):
                    reg.add(nd.id)
                    wr.add(nd.id)
                elif c.func.attr == "write" and "support" in norm(c.func.value):
                    wr.add(nd.id)
    if not reg or not wr:
        raise AnalysisError("R-ADDVERTEX: registration / support write calls not found in graph.add_vertex")
    rets = [nd for nd in cfg.nodes if nd.kind == "return"] + [cfg.exit]
    n = 0
    for r in rets:
        if r is cfg.exit:
            continue
        n += 1
        own_reg = r.id in reg
        skip_reg = (not own_reg) and r.id in cfg.reachable_from(cfg.entry, avoid=reg)
        if skip_reg and isinstance(r.ast.value, ast.Name) and len(f.params()) > 1:
            # `if oldnode == v: return oldnode`: what is returned is the vertex already held at that address, equal to v
            vparam = f.params()[1]
            for t in ast.walk(f.node):
                if isinstance(t, ast.If) and isinstance(t.test, ast.Compare) and len(t.test.ops) == 1 and isinstance(t.test.ops[0], ast.Eq) \
                        and {norm(t.test.left), norm(t.test.comparators[0])} == {r.ast.value.id, vparam} and any(x is r.ast for b in t.body for x in ast.walk(b)):
                    skip_reg = False
                    out.inst("%s::%s@%d::same" % (f.key, norm(r.ast), r.ast.lineno), {"return": norm(r.ast), "under": norm(t.test), "reads": "the vertex already registered at this address"})
        out.inst("%s::%s@%d" % (f.key, norm(r.ast), r.ast.lineno), {"return": norm(r.ast), "registered_on_all_paths": not skip_reg})
        if skip_reg:
            out.report(f.file, f.dqual, "%s without registration" % norm(r.ast), r.ast.lineno, "add_vertex can return by `%s` without having registered the vertex in this graph (no base-class add_vertex / __cut_add_vertex on the path): the block is neither a vertex nor in the support, so later blocks are not split against it and its instructions are missing from the partition" % norm(r.ast))
    out.stats["returns"] = n
    if n < 3:
        raise AnalysisError("R-ADDVERTEX: only %d returns" % n)
    return out
