"""R-XFER: loss-free transfer loops (shared by C08, C18, C19).

For a loop that rebuilds a collection from the elements x of a source, every path through the
loop body (from the head back to the head, or out of the loop by break) must
  (a) pass a *sink*: a statement that stores a value data-dependent on x into an accumulator, or
  (b) be a `continue`/fall-through taken under a test that compares x (or a value derived from x)
      with an accumulator (dedup / already-present test), or
  (c) leave the function (return / raise): those paths do not reach the head again.
"""
import ast

from ..cfg import CFG, _walk_no_nested
from ..index import norm, AnalysisError


def names_in(node):
    return {n.id for n in _walk_no_nested(node) if isinstance(n, ast.Name)}


def target_root(t):
    while isinstance(t, (ast.Attribute, ast.Subscript)):
        t = t.value
    return t.id if isinstance(t, ast.Name) else None


def target_text_root(t, accs):
    """does the store target denote (part of) an accumulator given as dotted text, e.g. 'mm._zones'?"""
    txt = norm(t)
    for a in accs:
        if txt == a or txt.startswith(a + "[") or txt.startswith(a + "."):
            return a
    return None


class XferResult:
    def __init__(self):
        self.sinks = []
        self.bad_paths = []
        self.exempt = []
        self.npaths = 0


def find_loop(fnode, iter_pred):
    """first For/While in fnode (document order) whose header satisfies iter_pred(loop node)."""
    for n in ast.walk(fnode):
        if isinstance(n, (ast.For, ast.While)) and iter_pred(n):
            return n
    return None


def check_loop(fnode, loop, xvars, accs, dedup_ok=True, extra_sink=None):
    """xvars: names bound to the element (For target names, or names popped from the source in a While).
    accs: accumulator names (plain names or dotted text like 'self._map', 'mm._zones')."""
    cfg = CFG(fnode)
    head = cfg.stmt_node.get(id(loop))
    if head is None:
        raise AnalysisError("loop not in CFG")
    body_ids = set()
    for s in loop.body:
        for n in ast.walk(s):
            if id(n) in cfg.stmt_node:
                body_ids.add(cfg.stmt_node[id(n)].id)
    # also test nodes etc are registered by stmt id; handlers registered too
    # taint: variables derived from x inside the body (flow-insensitive fixpoint)
    tainted = set(xvars)
    changed = True
    while changed:
        changed = False
        for s in loop.body:
            for n in ast.walk(s):
                if isinstance(n, ast.Assign) and (names_in(n.value) & tainted):
                    for t in n.targets:
                        for e in t.elts if isinstance(t, (ast.Tuple, ast.List)) else [t]:
                            if isinstance(e, ast.Name) and e.id not in tainted and e.id not in accs:
                                tainted.add(e.id)
                                changed = True
                elif isinstance(n, (ast.For,)) and (names_in(n.iter) & tainted):
                    for e in ast.walk(n.target):
                        if isinstance(e, ast.Name) and e.id not in tainted:
                            tainted.add(e.id)
                            changed = True
    res = XferResult()
    # names bound (inside the loop) to the accumulator or to one of its elements
    accroots = {a.split(".")[0] if "." not in a else a for a in accs}
    acc_derived = set(a for a in accs if "." not in a)
    for s in loop.body:
        for n in ast.walk(s):
            if isinstance(n, ast.Assign) and isinstance(n.targets[0], ast.Name) and any(norm(x) in accs or (isinstance(x, ast.Name) and x.id in acc_derived) for x in ast.walk(n.value)):
                acc_derived.add(n.targets[0].id)

    def is_acc(t):
        # the accumulator, a part of it, or a name bound in the loop to one of its elements (`prev = m[-1]`)
        return bool(target_text_root(t, accs) or target_root(t) in accs or (isinstance(t, (ast.Attribute, ast.Subscript)) and target_root(t) in acc_derived))

    def is_sink(stmt):
        if stmt is None:
            return False
        if extra_sink and extra_sink(stmt, tainted):
            return True
        if isinstance(stmt, ast.Expr) and isinstance(stmt.value, ast.Call) and isinstance(stmt.value.func, ast.Attribute):
            c = stmt.value
            if c.func.attr in ("append", "extend", "insert", "add", "update", "addtomap", "appendleft", "__setitem__", "setdefault", "write"):
                recv = c.func.value
                if is_acc(recv):
                    if any(names_in(a) & tainted for a in c.args) or any(names_in(k.value) & tainted for k in c.keywords):
                        return True
        if isinstance(stmt, ast.Assign):
            for t in stmt.targets:
                if isinstance(t, (ast.Subscript, ast.Attribute)) and is_acc(t):
                    if names_in(stmt.value) & tainted:
                        return True
                    # key derived from x counts as well (acc[k] = f(...)) only if value or key tainted
                    if isinstance(t, ast.Subscript) and (names_in(t.slice) & tainted) and (names_in(stmt.value) & tainted):
                        return True
        if isinstance(stmt, ast.AugAssign):
            t = stmt.target
            if is_acc(t) and (names_in(stmt.value) & tainted):
                return True
        if isinstance(stmt, (ast.Yield,)):
            return False
        if isinstance(stmt, ast.Expr) and isinstance(stmt.value, (ast.Yield, ast.YieldFrom)) and "<yield>" in accs:
            v = stmt.value.value
            if v is not None and (names_in(v) & tainted):
                return True
        return False

    sink_ids = set()
    for nid in body_ids:
        n = cfg.nodes[nid]
        if n.kind in ("stmt",) and is_sink(n.ast):
            sink_ids.add(nid)
            res.sinks.append(norm(n.ast)[:100])

    def dedup_atom(n):
        """an atomic test relating an x-derived value and an accumulator: `x in acc`, `acc.has(x)`, `x == acc[..]`.
        returns +1 (true means 'already there'), -1 (`not in`: false means already there) or 0"""
        if isinstance(n, ast.Compare) and len(n.ops) == 1:
            sides = [n.left] + list(n.comparators)
            has_x = any(names_in(s) & tainted for s in sides)
            has_acc = any((names_in(s) & set(a.split(".")[0] for a in accs)) or any(norm(s).startswith(a) for a in accs) for s in sides)
            if has_x and has_acc:
                return -1 if isinstance(n.ops[0], (ast.NotIn, ast.NotEq)) else 1
        if isinstance(n, ast.Call) and isinstance(n.func, ast.Attribute) and n.func.attr in ("has", "__contains__", "count", "index"):
            if (target_text_root(n.func.value, accs) or target_root(n.func.value) in accs) and any(names_in(a) & tainted for a in n.args):
                return 1
        if isinstance(n, ast.UnaryOp) and isinstance(n.op, ast.Not):
            return -dedup_atom(n.operand)
        # a helper that receives both the element and (a piece of) the accumulator and answers whether it took the element in:
        # `if _extend_raw(last, p): continue` with last = parts[-1]
        if isinstance(n, ast.Call) and isinstance(n.func, (ast.Name, ast.Attribute)):
            argn = [names_in(a) for a in n.args]
            if any(a & tainted for a in argn) and any(a & acc_derived for a in argn):
                return 1
        return 0

    def dedup_test(testexpr, label):
        """is taking branch `label` of this test justified by 'the element is already in the accumulator'?
        `a or b` taken true needs every disjunct to be such a test; `a and b` taken true needs one."""
        want = 1 if label == "t" else -1
        if isinstance(testexpr, ast.BoolOp):
            parts = [dedup_test(v, label) for v in testexpr.values]
            if isinstance(testexpr.op, ast.Or):
                return all(parts) if label == "t" else any(parts)
            return any(parts) if label == "t" else all(parts)
        return dedup_atom(testexpr) == want

    # enumerate paths from head (t edge) back to head / to loop exit by break, inside the body, avoiding sinks.
    # DFS with path recording; the body is acyclic except for inner loops (visited set per path).
    starts = [(m, lab) for m, lab in cfg.succ[head.id] if lab == "t"]
    bad = []
    count = [0]

    def dfs(node, path, seen):
        if count[0] > 20000:
            raise AnalysisError("R-XFER: path explosion in %s" % getattr(fnode, "name", "?"))
        for m, lab in cfg.succ[node.id]:
            # sink statement: completed normally -> path is fine; exception edge out of a sink = not completed
            if node.id in sink_ids and lab != "exc":
                continue
            if m.id == head.id:
                count[0] += 1
                bad.append(path + [(node, lab)])
                continue
            if m.id in (cfg.exit.id, cfg.raise_.id):
                continue  # leaves the function
            if m.id not in body_ids:
                # left the loop (break / exception handler outside): element dropped unless function exit follows... treat break as drop
                if node.kind == "break" or lab == "exc":
                    count[0] += 1
                    if node.kind == "break":
                        bad.append(path + [(node, lab)])
                continue
            if m.id in seen:
                continue
            dfs(m, path + [(node, lab)], seen | {m.id})

    for m, lab in starts:
        if m.id in body_ids:
            dfs(m, [(head, "t")], {m.id})
        elif m.id == head.id:
            bad.append([(head, "t")])
    res.npaths = count[0]
    for p in bad:
        # exempt if some test on the path relates x and the accumulator (dedup)
        ok = False
        if dedup_ok:
            for n, lab in p:
                if n.kind == "test" and n is not head and lab in ("t", "f") and dedup_test(n.ast.test, lab):
                    ok = True
        (res.exempt if ok else res.bad_paths).append(cfg.describe_path([(n, l) for n, l in p]))
    return res
