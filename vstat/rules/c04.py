"""R-INDEX (C04): the decision tree built by disassembler.setup is only an index over the most-constrained-first list.

The behavioural property (tree == linear scan for every byte string) is not decided.  What is decided are the
construction invariants without which the tree *cannot* be a faithful index - each is a necessary condition:

  ORDER    setup orders the list it is given by the weight of the fixed-bit mask, most constrained first, with Python's
           stable sort (list.sort / sorted), and every leaf list is filled by iterating that ordered list (order preserved)
  SPLIT    the mask a node splits on is the AND of the (adjusted) masks of *all* specs of the node: a bit outside some
           spec's mask would send words matching that spec into another bucket (a matching spec is hidden)
  KEY      a spec is filed under (adjusted fix) & split-mask, the node is labelled with that same split mask, and
           __call__ looks a word up with  word & <label of the node> : writer and reader use the same key
  ADJUST   the big-endian / little-endian justification of masks, fixes (setup) and of the fetched word (__call__) is the
           same function of the same maxlen (two equal lambdas, or one shared helper)
  LEAF     at a leaf every spec of the list is tried in order: no `break` leaves the scan early, a rejecting spec
           (DecodeError / InstructionError) continues with the next one
  RECURSE  every bucket of a split node is itself organised by setup
"""
import ast

from ..cfg import CFG, _walk_no_nested
from ..harness import RuleOut
from ..index import AnalysisError, norm

CORE = "amoco/arch/core.py"


def _lambda_text(l):
    """body of a one-argument lambda with its parameter renamed to `_`"""
    if not isinstance(l, ast.Lambda) or len(l.args.args) != 1:
        return None
    p = l.args.args[0].arg

    class R(ast.NodeTransformer):
        def visit_Name(self, n):
            return ast.copy_location(ast.Name(id="_" if n.id == p else n.id, ctx=ast.Load()), n)

    import copy

    return norm(R().visit(copy.deepcopy(l.body)))


def _adjusts(fnode):
    """{'be': text, 'le': text} of the `adjust` lambdas of a function: the one assigned under a test of endianness == -1
    is big-endian, the other little-endian; a shared helper (attribute / name, not a lambda) is reported by its text"""
    out = {}
    for n in ast.walk(fnode):
        if isinstance(n, ast.If) and "-1" in norm(n.test).replace(" ", "") and ("endian" in norm(n.test) or norm(n.test).startswith("e ==") or " e " in " %s " % norm(n.test)):
            for s in n.body:
                for a in ast.walk(s):
                    if isinstance(a, ast.Assign) and norm(a.targets[0]) == "adjust":
                        out["be"] = _lambda_text(a.value) or norm(a.value)
            for s in n.orelse:
                for a in ast.walk(s):
                    if isinstance(a, ast.Assign) and norm(a.targets[0]) == "adjust":
                        out["le"] = _lambda_text(a.value) or norm(a.value)
    if "le" not in out:
        for a in fnode.body:
            if isinstance(a, ast.Assign) and norm(a.targets[0]) == "adjust":
                out["le"] = _lambda_text(a.value) or norm(a.value)
    return out


def r_index(repo, tier):
    out = RuleOut(
        "R-INDEX",
        "disassembler.setup / __call__ (arch/core.py): ORDER the spec list is stably sorted by mask weight, most constrained first, and "
        "leaves are filled in that order; SPLIT a node's mask is the AND of the adjusted masks of all its specs; KEY specs are filed "
        "under adjust(fix) & mask, the node is labelled with that mask and the word is looked up with word & label; ADJUST the "
        "endianness justification is the same function in setup and __call__; LEAF every spec of a leaf is tried in order, no break "
        "leaves the scan; RECURSE every bucket is organised by setup -- necessary conditions for the tree to be only an index",
    )
    setup = repo.func(CORE, "disassembler.setup")
    call = repo.func(CORE, "disassembler.__call__")
    sn, cn = setup.node, call.node
    lst = setup.params()[1] if len(setup.params()) > 1 else None
    if lst is None:
        raise AnalysisError("R-INDEX: disassembler.setup has no spec-list parameter")

    # ------------------------------------------------------------------ ORDER
    sorts = []
    for c in ast.walk(sn):
        if isinstance(c, ast.Call):
            if isinstance(c.func, ast.Attribute) and c.func.attr == "sort" and norm(c.func.value) == lst:
                sorts.append(c)
            elif isinstance(c.func, ast.Name) and c.func.id == "sorted" and c.args and norm(c.args[0]) == lst:
                sorts.append(c)
    out.inst("setup::ORDER", {"sort_calls": [norm(c)[:90] for c in sorts]})
    if not sorts:
        out.report(CORE, setup.dqual, "ORDER: no sort of %s" % lst, sn.lineno, "setup no longer sorts the spec list: leaves are scanned in declaration order, not most-constrained-first")
    for c in sorts:
        kw = {k.arg: k.value for k in c.keywords}
        key = kw.get("key")
        body = _lambda_text(key) if key is not None else None
        if body is None and key is not None:
            # a named key function of the same file: `def _weight(spec): return spec.mask.hw()`
            g = None
            if isinstance(key, ast.Name):
                g = setup.mod.functions.get(key.id)
            elif isinstance(key, ast.Attribute) and isinstance(key.value, ast.Name) and key.value.id in ("self", "cls", "disassembler") and setup.cls is not None:
                g = setup.cls.methods.get(key.attr)
            if g is not None:
                stmts = [x for x in g.node.body if not (isinstance(x, ast.Expr) and isinstance(x.value, ast.Constant))]
                ps = [a.arg for a in g.node.args.args if a.arg not in ("self", "cls")]
                if len(stmts) == 1 and isinstance(stmts[0], ast.Return) and stmts[0].value is not None and len(ps) == 1:
                    body = _lambda_text(ast.Lambda(args=ast.arguments(posonlyargs=[], args=[ast.arg(arg=ps[0])], kwonlyargs=[], kw_defaults=[], defaults=[]), body=stmts[0].value))
            if body is None:
                out.undecide(CORE, setup.dqual, "ORDER: sort key %s" % norm(key)[:40], "the key function is not a lambda nor a one-line function of this file")
                continue
        rev = kw.get("reverse")
        descending = isinstance(rev, ast.Constant) and rev.value is True
        if body is None:
            out.report(CORE, setup.dqual, "ORDER: sort key", c.lineno, "the spec list is not sorted by a one-argument key function (the most-constrained-first order is the mask weight)")
            continue
        negated = body.startswith("-")
        core_body = body.lstrip("-").strip("()")
        if core_body not in ("_.mask.hw", "_.mask.hw()"):
            out.report(CORE, setup.dqual, "ORDER: sort key %s" % body, c.lineno, "the spec list is sorted by `%s`, not by the number of fixed bits of the mask (`x.mask.hw()`): a less constrained spec can be tried - and win - before a more constrained one" % body)
        elif descending == negated:
            out.report(CORE, setup.dqual, "ORDER: direction", c.lineno, "the spec list is sorted by mask weight in ascending order: the least constrained spec is tried first")

    # ------------------------------------------------------------------ SPLIT
    maskvar = None
    split_ok = None
    for a in ast.walk(sn):
        if isinstance(a, ast.Assign) and isinstance(a.value, ast.Call) and norm(a.value.func) in ("reduce", "functools.reduce") and len(a.value.args) >= 2:
            fn, it = a.value.args[0], a.value.args[1]
            if ".mask" in norm(it):
                maskvar = norm(a.targets[0])
                is_and = isinstance(fn, ast.Lambda) and isinstance(fn.body, ast.BinOp) and isinstance(fn.body.op, ast.BitAnd)
                is_and = is_and or norm(fn) in ("operator.and_", "and_", "operator.__and__")
                over_all = any(isinstance(g, ast.comprehension) and norm(g.iter) == lst and not g.ifs for g in ast.walk(it))
                split_ok = (is_and, over_all, a)
    if maskvar is None:
        # loop form:  m &= adjust(s.mask)
        for a in ast.walk(sn):
            if isinstance(a, ast.AugAssign) and isinstance(a.op, ast.BitAnd) and ".mask" in norm(a.value):
                maskvar = norm(a.target)
                split_ok = (True, True, a)
    out.inst("setup::SPLIT", {"split_mask_variable": maskvar, "and_reduction": bool(split_ok and split_ok[0]), "over_all_specs": bool(split_ok and split_ok[1])})
    if maskvar is None:
        out.undecide(CORE, setup.dqual, "SPLIT", "the computation of the split mask is not recognised")
    else:
        if not split_ok[0]:
            out.report(CORE, setup.dqual, "SPLIT: reduction operator", split_ok[2].lineno, "the split mask is not the AND of the specs' masks: it contains bits that some spec does not fix, so words matching that spec are looked up in another bucket")
        if not split_ok[1]:
            out.report(CORE, setup.dqual, "SPLIT: subset of specs", split_ok[2].lineno, "the split mask is not computed over all specs of the node")

    # names the mask flows into (f = localmask)
    maskvars = {maskvar} if maskvar else set()
    changed = True
    while changed:
        changed = False
        for a in ast.walk(sn):
            if isinstance(a, ast.Assign) and isinstance(a.value, ast.Name) and a.value.id in maskvars and isinstance(a.targets[0], ast.Name) and a.targets[0].id not in maskvars:
                maskvars.add(a.targets[0].id)
                changed = True

    # ------------------------------------------------------------------ KEY (writer)
    filed = []
    for loop in ast.walk(sn):
        if isinstance(loop, ast.For) and norm(loop.iter) == lst and isinstance(loop.target, ast.Name):
            s_ = loop.target.id
            for c in ast.walk(loop):
                if isinstance(c, ast.Call) and isinstance(c.func, ast.Attribute) and c.func.attr == "append" and isinstance(c.func.value, ast.Subscript) and c.args and norm(c.args[0]) == s_:
                    k_ = c.func.value.slice
                    if isinstance(k_, ast.Name):
                        # the key was given a name first: read its definition inside the loop body
                        for a_ in ast.walk(loop):
                            if isinstance(a_, ast.Assign) and len(a_.targets) == 1 and isinstance(a_.targets[0], ast.Name) and a_.targets[0].id == k_.id and a_.lineno <= c.lineno:
                                k_ = a_.value
                    filed.append((c, k_, s_))
    if not maskvars:
        # SPLIT was not recognised: take the mask from the filing key itself (`<fix> & M`), so that writer / label / reader
        # agreement can still be decided
        for c, k, s_ in filed:
            if isinstance(k, ast.BinOp) and isinstance(k.op, ast.BitAnd):
                for x in (k.left, k.right):
                    if isinstance(x, ast.Name):
                        maskvars.add(x.id)
    out.inst("setup::KEY-writer", {"filing": [norm(c)[:80] for c, _, _ in filed]})
    if not filed:
        out.undecide(CORE, setup.dqual, "KEY", "the statement that files a spec into its bucket is not recognised")
    for c, k, s_ in filed:
        ok = isinstance(k, ast.BinOp) and isinstance(k.op, ast.BitAnd) and any(isinstance(x, ast.Name) and x.id in maskvars for x in (k.left, k.right)) and ("%s.fix" % s_) in norm(k)
        if not ok:
            out.report(CORE, setup.dqual, "KEY: bucket key %s" % norm(k), c.lineno, "a spec is filed under `%s`, which is not (adjusted fix) & split-mask: the word looked up with word & mask cannot find it" % norm(k))
        if "adjust(" not in norm(k) and "adjust" in norm(sn):
            out.report(CORE, setup.dqual, "KEY: unadjusted fix %s" % norm(k), c.lineno, "the fix value is not justified with adjust() while the mask is")
    # label of the node
    rets = [r for r in _walk_no_nested(sn) if isinstance(r, ast.Return) and isinstance(r.value, ast.Tuple) and len(r.value.elts) == 2]
    labelled = [r for r in rets if isinstance(r.value.elts[0], ast.Name) and r.value.elts[0].id in maskvars]
    leafs = [r for r in rets if isinstance(r.value.elts[0], ast.Constant) and r.value.elts[0].value == 0]
    out.inst("setup::KEY-label", {"split_node_returns": [norm(r) for r in labelled], "leaf_returns": [norm(r) for r in leafs]})
    for r in rets:
        if r not in labelled and r not in leafs:
            out.report(CORE, setup.dqual, "KEY: node label %s" % norm(r), r.lineno, "a split node is labelled with `%s`, not with the mask its buckets were keyed with" % norm(r.value.elts[0]))
    if not labelled:
        out.report(CORE, setup.dqual, "KEY: no split node", sn.lineno, "setup never returns a node labelled with its split mask")
    # ------------------------------------------------------------------ KEY (reader)
    unp = None
    for a in ast.walk(cn):
        if isinstance(a, ast.Assign) and isinstance(a.targets[0], ast.Tuple) and len(a.targets[0].elts) == 2 and all(isinstance(e, ast.Name) for e in a.targets[0].elts):
            unp = (a.targets[0].elts[0].id, a.targets[0].elts[1].id)
    lookups = []
    if unp:
        for c in ast.walk(cn):
            k = None
            if isinstance(c, ast.Call) and isinstance(c.func, ast.Attribute) and c.func.attr == "get" and norm(c.func.value) == unp[1] and c.args:
                k = c.args[0]
            elif isinstance(c, ast.Subscript) and norm(c.value) == unp[1] and isinstance(c.ctx, ast.Load):
                k = c.slice
            if k is not None:
                lookups.append((c, k))
    out.inst("__call__::KEY-reader", {"node_unpacked_as": unp, "lookups": [norm(k) for _, k in lookups]})
    if not lookups:
        out.undecide(CORE, call.dqual, "KEY", "the bucket look-up of __call__ is not recognised")
    for c, k in lookups:
        ok = isinstance(k, ast.BinOp) and isinstance(k.op, ast.BitAnd) and any(isinstance(x, ast.Name) and x.id == unp[0] for x in (k.left, k.right))
        if not ok:
            out.report(CORE, call.dqual, "KEY: look-up key %s" % norm(k), c.lineno, "the word is looked up with `%s`, not with word & <label of the node> (`%s`): buckets were keyed with the masked fix" % (norm(k), unp[0]))
    # ------------------------------------------------------------------ ADJUST
    a1, a2 = _adjusts(sn), _adjusts(cn)
    out.inst("ADJUST", {"setup": a1, "__call__": a2})
    def _is_lambda_text(t):
        return isinstance(t, str) and "_" in t and "self._" not in t and "__ret" not in t

    for e in ("be", "le"):
        if e in a1 and e in a2 and not (_is_lambda_text(a1[e]) and _is_lambda_text(a2[e])):
            out.undecide(CORE, call.dqual, "ADJUST %s" % e, "the justification is not written as two lambdas (%s / %s); not compared" % (a1[e], a2[e]))
        elif e in a1 and e in a2 and a1[e] != a2[e]:
            out.report(CORE, call.dqual, "ADJUST: %s %s vs %s" % (e, a2[e], a1[e]), cn.lineno, "for %s-endian fetch setup justifies masks and fixes with `%s` but __call__ justifies the fetched word with `%s`" % ("big" if e == "be" else "little", a1[e], a2[e]))
        elif (e in a1) != (e in a2):
            out.undecide(CORE, call.dqual, "ADJUST %s" % e, "justification found in only one of setup / __call__")
    ms = {}
    for nm, node in (("setup", sn), ("__call__", cn)):
        for a in ast.walk(node):
            if isinstance(a, ast.Assign) and norm(a.targets[0]) == "maxsize":
                ms[nm] = norm(a.value)
    if len(ms) == 2 and ms["setup"] != ms["__call__"]:
        out.report(CORE, call.dqual, "ADJUST: maxsize %s vs %s" % (ms["__call__"], ms["setup"]), cn.lineno, "the big-endian justification width is `%s` in setup and `%s` in __call__" % (ms["setup"], ms["__call__"]))
    # ------------------------------------------------------------------ LEAF
    cfg = CFG(cn, may_raise=lambda x: False)
    leafloops = [l for l in ast.walk(cn) if isinstance(l, ast.For) and unp and norm(l.iter) == unp[1]]
    out.inst("__call__::LEAF", {"leaf_loops": [norm(l).split(":")[0] for l in leafloops]})
    if not leafloops:
        out.undecide(CORE, call.dqual, "LEAF", "the linear scan over a leaf list is not recognised")
    for l in leafloops:
        brk = []

        def find_breaks(stmts, inner):
            for s in stmts:
                if isinstance(s, ast.Break) and not inner:
                    brk.append(s)
                elif isinstance(s, (ast.For, ast.While)):
                    find_breaks(s.body, True)
                    find_breaks(s.orelse, inner)
                else:
                    for blk in (getattr(s, "body", None), getattr(s, "orelse", None), getattr(s, "finalbody", None)):
                        if isinstance(blk, list):
                            find_breaks(blk, inner)
                    for h in getattr(s, "handlers", []):
                        find_breaks(h.body, inner)

        find_breaks(l.body, False)
        for b in brk:
            out.report(CORE, call.dqual, "LEAF: break in the scan", b.lineno, "a `break` leaves the linear scan of a leaf before every spec of the list was tried: a later (less constrained) matching spec is never reached")
        # the handler of a rejecting spec continues
        for t in ast.walk(l):
            if isinstance(t, ast.Try):
                for h in t.handlers:
                    names = norm(h.type) if h.type is not None else ""
                    if "DecodeError" in names or "InstructionError" in names:
                        ends = h.body[-1]
                        if not isinstance(ends, (ast.Continue, ast.Pass)):
                            out.report(CORE, call.dqual, "LEAF: rejection handler", h.lineno, "when a spec rejects the word (%s) the scan does not continue with the next spec (handler ends with `%s`)" % (names, norm(ends)[:40]))
    # ------------------------------------------------------------------ RECURSE
    rec = [a for a in ast.walk(sn) if isinstance(a, ast.Assign) and isinstance(a.targets[0], ast.Subscript) and isinstance(a.value, ast.Call) and norm(a.value.func) == "self.setup"]
    loops_all = [l for l in ast.walk(sn) if isinstance(l, ast.For) and any(r is x for r in rec for x in ast.walk(l))]
    out.inst("setup::RECURSE", {"recursions": [norm(a) for a in rec]})
    comps = [d for d in ast.walk(sn) if isinstance(d, ast.DictComp) and isinstance(d.value, ast.Call) and norm(d.value.func) == "self.setup"]
    if comps:
        # `{x: self.setup(S) for x, S in parts.items()}`: every bucket is organised unless the comprehension filters
        out.inst("setup::RECURSE::comprehension", {"recursions": [norm(d)[:90] for d in comps]})
        for d in comps:
            if any(g.ifs for g in d.generators):
                out.report(CORE, setup.dqual, "RECURSE: conditional", d.lineno, "some buckets are skipped by the comprehension that organises them")
    elif not rec or not loops_all:
        out.report(CORE, setup.dqual, "RECURSE", sn.lineno, "the buckets of a split node are not organised by setup: __call__ expects every value of the node's dict to be a (mask, subtree) pair")
    else:
        for l in loops_all:
            if not norm(l.iter).endswith(".items()") and not norm(l.iter).endswith(".keys()") and not isinstance(l.iter, ast.Name):
                out.undecide(CORE, setup.dqual, "RECURSE", "iteration over the buckets not recognised: %s" % norm(l.iter))
            if any(isinstance(x, (ast.If, ast.Continue, ast.Break)) for s in l.body for x in ast.walk(s)):
                out.report(CORE, setup.dqual, "RECURSE: conditional", l.lineno, "some buckets are skipped by the loop that organises them")
    return out


def r_treero(repo, tier):
    """nothing outside disassembler.setup rewrites the spec tree"""
    out = RuleOut(
        "R-TREERO",
        "the spec tree built by disassembler.setup (disassembler.specs: nested (mask, dict) nodes with lists of specs at the leaves) is "
        "read-only after construction: outside arch/core.py no code calls an in-place list/dict method (sort, reverse, append, insert, "
        "pop, remove, clear, update, ...) or stores an item on a value obtained from `.specs` or by unpacking one of its nodes -- the "
        "order of a leaf list decides which spec wins",
    )
    MUT = {"sort", "reverse", "append", "insert", "pop", "remove", "clear", "update", "extend", "setdefault", "popitem"}
    n = 0
    for m in repo.modules.values():
        if m.rel == CORE or not m.rel.startswith("amoco/"):
            continue
        if ".specs" not in m.src:
            continue
        for f in m.functions.values():
            # names derived from a .specs tree: flow-insensitive closure over assignments / for targets / tuple unpacking / parameters
            # of methods of a class that reads .specs (the walker receives nodes as arguments)
            cls_reads = f.cls is not None and any(".specs" in norm(x) for g in f.cls.methods.values() for x in ast.walk(g.node) if isinstance(x, ast.Attribute))
            if not cls_reads and ".specs" not in norm(f.node):
                continue
            tree = set()
            if cls_reads:
                tree |= {p for p in f.params() if p not in ("self", "cls")}
            changed = True
            while changed:
                changed = False
                for x in ast.walk(f.node):
                    src, tg = None, []
                    if isinstance(x, ast.Assign):
                        src, tg = x.value, x.targets
                        if not isinstance(src, (ast.Name, ast.Attribute, ast.Subscript, ast.Tuple)):
                            continue  # a display / comprehension / call result is a new object, not a node of the tree
                    elif isinstance(x, (ast.For, ast.comprehension)):
                        src, tg = x.iter, [x.target]
                    if src is None:
                        continue
                    if ".specs" in norm(src) or ({k.id for k in ast.walk(src) if isinstance(k, ast.Name)} & tree):
                        for t in tg:
                            for k in ast.walk(t):
                                if isinstance(k, ast.Name) and k.id not in tree:
                                    tree.add(k.id)
                                    changed = True
            if not tree:
                continue
            n += 1
            out.inst(f.key, {"function": f.dqual, "tree_derived_names": sorted(tree)})
            for x in ast.walk(f.node):
                if isinstance(x, ast.Call) and isinstance(x.func, ast.Attribute) and x.func.attr in MUT and isinstance(x.func.value, ast.Name) and x.func.value.id in tree:
                    out.report(m.rel, f.dqual, "in-place %s" % norm(x)[:60], x.lineno, "`%s` modifies in place a list/dict that is part of the disassembler's spec tree: the order of a leaf list decides which specification wins, so every later decode is affected" % norm(x)[:70])
                if isinstance(x, (ast.Assign, ast.AugAssign, ast.Delete)):
                    for t in (x.targets if isinstance(x, (ast.Assign, ast.Delete)) else [x.target]):
                        if isinstance(t, ast.Subscript) and isinstance(t.value, ast.Name) and t.value.id in tree:
                            out.report(m.rel, f.dqual, "item store %s" % norm(t)[:60], x.lineno, "`%s` stores into a node of the disassembler's spec tree" % norm(x)[:70])
    out.stats["readers"] = n
    if n < 1:
        raise AnalysisError("R-TREERO: no reader of disassembler.specs found outside arch/core.py (ui/views.py archView expected)")
    return out
