"""C14 / C15 / C20 rules over the executable-format parsers (elf, pe, macho, coff, HEX, SREC)."""
import ast
import json
import os

from .. import VERIF
from ..cfg import CFG, _walk_no_nested
from ..harness import RuleOut
from ..index import AnalysisError, norm
from ..structmodel import collect_structs, layout, apply_edit_script, Undecided, StructM

ELF = "amoco/system/elf.py"
ELF_MAP = {"Ehdr": "Ehdr", "Phdr": "Phdr", "Shdr": "Shdr", "Sym": "Sym", "Rel": "Rel", "Rela": "Rela", "Dyn": "Dyn", "Note": "Nhdr"}


def _ref(name):
    with open(os.path.join(VERIF, "ref", name)) as fh:
        return json.load(fh)


def _x64_block(cls):
    """statements executed for 64-bit files: body of `if x64:` in __init__, or of the ELFCLASS64 test in unpack"""
    for mname, f in sorted(cls.methods.items(), key=lambda kv: (kv[0] not in ("__init__", "unpack"), kv[0])):
        for n in ast.walk(f.node):
            if isinstance(n, ast.If):
                t = norm(n.test)
                if t == "x64" or "ELFCLASS64" in t:
                    if any(isinstance(x, ast.Attribute) and x.attr in ("fields", "typename") for b in n.body for x in ast.walk(b)):
                        return n.body
    return None


def _match(name, refnames):
    if name in refnames:
        return name
    for r in refnames:
        if r.endswith("_" + name) or r.endswith(name) and len(name) > 3:
            return r
    return None


def r_structref_elf(repo, tier):
    out = RuleOut(
        "R-STRUCTREF",
        "the field sequence (name, offset, width) computed by vstat's C-layout model from each ELF structure literal -- and from "
        "the literal after interpreting the field-list edit script its class applies for 64-bit files -- equals the layout of "
        "the corresponding Elf32_/Elf64_ structure of <elf.h> (vendored table generated with gcc offsetof/sizeof)",
    )
    ref = _ref("elf_layout.json")["structs"]
    structs = collect_structs(repo, ELF)
    n = 0
    for cname, rname in ELF_MAP.items():
        sm = structs.get(cname)
        if not isinstance(sm, StructM):
            raise AnalysisError("anchor vanished or unparsable: ELF structure %s (%s)" % (cname, sm))
        for bits in (32, 64):
            R = ref["Elf%d_%s" % (bits, rname)]
            flds = sm.fields
            if bits == 64:
                blk = _x64_block(sm.cls)
                if blk is None:
                    blk = []  # no 64-bit switch: the class uses the same layout for both ELF classes
                try:
                    flds = apply_edit_script(blk, sm.fields)
                except Undecided as e:
                    out.undecide(ELF, cname, "x64 edit script", "statement outside the interpreted idioms: %s" % e)
                    continue
            lay = layout(StructM(sm.cls, flds, sm.packed), structs, psize=bits // 8)
            n += 1
            key = "%s::%s/%d" % (ELF, cname, bits)
            refmap = {m[0]: (m[1], m[2]) for m in R["fields"]}
            out.inst(key, {"class": cname, "bits": bits, "computed": lay, "reference": R})
            if lay is None:
                out.undecide(ELF, cname, "%d-bit layout" % bits, "variable-length field")
                continue
            line = sm.cls.node.lineno
            if lay["size"] != R["size"]:
                out.report(ELF, cname, "Elf%d_%s size %d" % (bits, rname, lay["size"]), line, "%s describes a %d-byte structure for %d-bit files; Elf%d_%s is %d bytes" % (cname, lay["size"], bits, bits, rname, R["size"]))
            for name, off, size in lay["fields"]:
                rn = _match(name, refmap)
                if rn is None:
                    out.report(ELF, cname, "Elf%d_%s field %s" % (bits, rname, name), line, "field %s has no counterpart in Elf%d_%s" % (name, bits, rname))
                    continue
                if (off, size) != refmap[rn]:
                    out.report(ELF, cname, "Elf%d_%s field %s at %d size %d" % (bits, rname, name, off, size), line, "%s.%s is laid out at offset %d with %d bytes for %d-bit files; Elf%d_%s.%s is at offset %d with %d bytes" % (cname, name, off, size, bits, bits, rname, rn, refmap[rn][0], refmap[rn][1]))
            missing = set(refmap) - {_match(nm, refmap) for nm, _, _ in lay["fields"]}
            for mn in sorted(missing):
                out.report(ELF, cname, "Elf%d_%s lacks %s" % (bits, rname, mn), line, "%s does not declare member %s of Elf%d_%s" % (cname, mn, bits, rname))
    out.stats["layouts"] = n
    if n < 14:
        raise AnalysisError("R-STRUCTREF: only %d ELF layouts computed (16 expected)" % n)
    return out


HEX = "amoco/system/structs/HEX.py"
SREC = "amoco/system/structs/SREC.py"


def r_rectab(repo, tier):
    out = RuleOut(
        "R-RECTAB",
        "record-format tables equal the published formats: the S-record address-field width table (hex digits per record type "
        "S0..S9) and the Intel-HEX record-type constants",
    )
    ref = _ref("records.json")
    # SREC address-width table: the container subscripted by self.SRECtype in SRECline.size -- a list literal or a dict
    # (inline or bound at module level), keyed by position or by the record-type constants
    f = repo.func(SREC, "SRECline.size")
    msrec = repo.mod(SREC)
    consts = {}
    for n in ast.walk(msrec.tree):
        if isinstance(n, ast.Assign) and isinstance(n.targets[0], ast.Name) and isinstance(n.value, ast.Constant) and isinstance(n.value.value, int):
            consts[n.targets[0].id] = n.value.value
    tab = None
    where = f.node.lineno
    for n in ast.walk(f.node):
        if isinstance(n, ast.Subscript) and "SRECtype" in norm(n.slice):
            c = n.value
            if isinstance(c, ast.Name):
                for s2 in msrec.tree.body:
                    if isinstance(s2, ast.Assign) and isinstance(s2.targets[0], ast.Name) and s2.targets[0].id == c.id:
                        c = s2.value
                        where = s2.lineno
            if isinstance(c, (ast.List, ast.Tuple)) and all(isinstance(e, ast.Constant) for e in c.elts):
                tab = {k: e.value for k, e in enumerate(c.elts)}
            elif isinstance(c, ast.Dict):
                tab = {}
                for k, v in zip(c.keys, c.values):
                    kk = k.value if isinstance(k, ast.Constant) else consts.get(getattr(k, "id", None))
                    if kk is None or not isinstance(v, ast.Constant):
                        tab = None
                        break
                    tab[kk] = v.value
    if tab is None:
        raise AnalysisError("R-RECTAB: S-record width table (container subscripted by self.SRECtype) not recognised in SRECline.size")
    out.inst("SREC::widths", {"table": {str(k): v for k, v in sorted(tab.items())}, "reference": ref["srec_address_digits"]})
    for k, b in enumerate(ref["srec_address_digits"]):
        if k not in tab:
            out.report(SREC, "SRECline.size", "S%d has no row" % k, where, "record type S%d has no entry in the address-width table: a line starting with 'S%d' raises %s, which SRECline.set does not convert into SRECError" % (k, k, "KeyError"))
        elif b is not None and tab[k] != b:
            out.report(SREC, "SRECline.size", "S%d address digits %d" % (k, tab[k]), where, "S%d records carry a %d-digit address field, the table says %d" % (k, b, tab[k]))
    # the table is total over the *parsed range* of the record type: self.SRECtype = int(line[a:b], BASE) can take BASE**(b-a) values
    fs = repo.func(SREC, "SRECline.set")
    parsed = None
    for n in ast.walk(fs.node):
        if isinstance(n, ast.Assign) and norm(n.targets[0]) == "self.SRECtype" and isinstance(n.value, ast.Call) and norm(n.value.func) == "int" and n.value.args:
            a0 = n.value.args[0]
            base = n.value.args[1].value if len(n.value.args) > 1 and isinstance(n.value.args[1], ast.Constant) else (10 if len(n.value.args) == 1 else None)
            width = None
            if isinstance(a0, ast.Subscript) and isinstance(a0.slice, ast.Slice) and isinstance(a0.slice.lower, ast.Constant) and isinstance(a0.slice.upper, ast.Constant):
                width = a0.slice.upper.value - a0.slice.lower.value
            parsed = (n, base, width)
    if parsed is None:
        raise AnalysisError("R-RECTAB: SRECline.set no longer parses self.SRECtype with int(line[a:b], base)")
    pn, base, width = parsed
    caught = set()
    for t in ast.walk(fs.node):
        if isinstance(t, ast.Try) and any(x is pn for x in ast.walk(t)):
            for h in t.handlers:
                if h.type is None:
                    caught.add("Exception")
                else:
                    caught |= {norm(e) for e in (h.type.elts if isinstance(h.type, ast.Tuple) else [h.type])}
    lookup_err = "IndexError" if not isinstance(tab, dict) or all(isinstance(k, int) for k in tab) and sorted(tab) == list(range(len(tab))) else "KeyError"
    protected = bool(caught & {"Exception", "BaseException", "LookupError", "IndexError", "KeyError"})
    out.inst("SREC::type-range", {"parse": norm(pn), "base": base, "digits": width, "exceptions_converted": sorted(caught)})
    if base is None or width is None:
        out.undecide(SREC, "SRECline.set", norm(pn), "base or digit count of the record-type parse is not a constant")
    elif not protected:
        # a range check on the parsed value between the parse and the lookup narrows the range (assert / if ...: raise)
        limit = base ** width
        unknown_guard = None
        for t in ast.walk(fs.node):
            test = t.test if isinstance(t, ast.Assert) or (isinstance(t, ast.If) and t.body and isinstance(t.body[-1], ast.Raise)) else None
            if test is None or "self.SRECtype" not in norm(test) or t.lineno < pn.lineno:
                continue
            neg = isinstance(t, ast.If)
            cmpn = test
            if isinstance(cmpn, ast.Compare) and len(cmpn.ops) == 1 and norm(cmpn.left) == "self.SRECtype" and isinstance(cmpn.comparators[0], ast.Constant) and isinstance(cmpn.comparators[0].value, int):
                k, o = cmpn.comparators[0].value, cmpn.ops[0]
                if not neg and isinstance(o, ast.Lt):
                    limit = min(limit, k)
                elif not neg and isinstance(o, ast.LtE):
                    limit = min(limit, k + 1)
                elif neg and isinstance(o, ast.GtE):
                    limit = min(limit, k)
                elif neg and isinstance(o, ast.Gt):
                    limit = min(limit, k + 1)
                else:
                    unknown_guard = norm(test)
            else:
                unknown_guard = norm(test)
        missing = [v for v in range(limit) if v not in tab]
        if missing and unknown_guard:
            out.undecide(SREC, "SRECline.set", norm(pn), "the parsed record type is range-checked by `%s`, which this rule cannot evaluate" % unknown_guard)
            missing = []
        if missing:
            out.report(SREC, "SRECline.set", "record type range %d**%d" % (base, width), pn.lineno, "the record type is parsed as %d digit(s) in base %d, so it can be %s; the address-width table has no row for these and the lookup error is not among the exceptions SRECline.set converts into SRECError (%s)" % (width, base, ", ".join(str(v) for v in missing[:8]), ", ".join(sorted(caught)) or "none"))
    # constants
    for rel, block, refk in ((HEX, "HEXcode", "hex_record_types"), (SREC, "SREC", "srec_record_types")):
        m = repo.mod(rel)
        got = {}
        for n in ast.walk(m.tree):
            if isinstance(n, ast.With) and any(isinstance(it.context_expr, ast.Call) and norm(it.context_expr.func) == "Consts" and it.context_expr.args and isinstance(it.context_expr.args[0], ast.Constant) and it.context_expr.args[0].value == block for it in n.items):
                for s in n.body:
                    if isinstance(s, ast.Assign) and isinstance(s.targets[0], ast.Name) and isinstance(s.value, ast.Constant):
                        got[s.targets[0].id] = s.value.value
        if not got:
            raise AnalysisError("R-RECTAB: constants block %s not found in %s" % (block, rel))
        out.inst("%s::%s" % (rel, block), {"constants": got, "reference": ref[refk]})
        for name, v in sorted(ref[refk].items()):
            if name in got and got[name] != v:
                out.report(rel, "<module>", "%s = %s" % (name, got[name]), 0, "record type constant %s is %d in the format definition, not %s" % (name, v, got[name]))
            if name not in got:
                out.report(rel, "<module>", "%s missing" % name, 0, "record type constant %s (= %d) is not defined" % (name, v))
    return out


def _tainted_by_sum(fn):
    t = set()
    changed = True
    while changed:
        changed = False
        for n in ast.walk(fn):
            if isinstance(n, ast.Assign):
                src = norm(n.value)
                dep = "sum(" in src or any(x in t for x in _names_attrs(n.value))
                if dep:
                    for tg in n.targets:
                        k = norm(tg)
                        if k not in t:
                            t.add(k)
                            changed = True
    return t


def _names_attrs(e):
    out = set()
    for n in ast.walk(e):
        if isinstance(n, ast.Name):
            out.add(n.id)
        elif isinstance(n, ast.Attribute):
            out.add(norm(n))
    return out


_INF = float("inf")


def _interval(fnode, e, line, depth):
    """integer interval [lo, hi] of expression e as evaluated at `line` of fnode (names resolved to their last assignment
    textually before that line); None when unknown"""
    if depth > 8:
        return None
    if isinstance(e, ast.Constant) and isinstance(e.value, int) and not isinstance(e.value, bool):
        return (e.value, e.value)
    if isinstance(e, ast.Call) and isinstance(e.func, ast.Name):
        if e.func.id == "sum":
            return (0, _INF)  # sums of byte values
        if e.func.id == "int" and len(e.args) == 2 and isinstance(e.args[1], ast.Constant) and isinstance(e.args[0], ast.Subscript) and isinstance(e.args[0].slice, ast.Slice):
            sl = e.args[0].slice
            lo = sl.lower.value if isinstance(sl.lower, ast.Constant) else (0 if sl.lower is None else None)
            hi = sl.upper.value if isinstance(sl.upper, ast.Constant) else (0 if sl.upper is None else None)
            if isinstance(sl.lower, ast.UnaryOp) and isinstance(sl.lower.op, ast.USub) and isinstance(sl.lower.operand, ast.Constant):
                lo = -sl.lower.operand.value
            if lo is not None and hi is not None and (hi - lo) > 0:
                return (0, e.args[1].value ** (hi - lo) - 1)
        return None
    if isinstance(e, ast.UnaryOp) and isinstance(e.op, ast.USub):
        a = _interval(fnode, e.operand, line, depth + 1)
        return None if a is None else (-a[1], -a[0])
    if isinstance(e, ast.UnaryOp) and isinstance(e.op, ast.Invert):
        a = _interval(fnode, e.operand, line, depth + 1)
        return None if a is None else (-a[1] - 1, -a[0] - 1)
    if isinstance(e, ast.BinOp):
        a = _interval(fnode, e.left, line, depth + 1)
        b = _interval(fnode, e.right, line, depth + 1)
        if isinstance(e.op, ast.BitAnd):
            # x & m with a non-negative constant mask is within [0, m] whatever x is
            for m in (a, b):
                if m is not None and m[0] == m[1] and m[0] >= 0:
                    return (0, m[0])
            return None
        if isinstance(e.op, ast.Mod) and b is not None and b[0] == b[1] and b[0] > 0:
            return (0, b[0] - 1)
        if a is None or b is None:
            return None
        if isinstance(e.op, ast.Add):
            return (a[0] + b[0], a[1] + b[1])
        if isinstance(e.op, ast.Sub):
            return (a[0] - b[1], a[1] - b[0])
        if isinstance(e.op, ast.BitXor) and a[0] >= 0 and b[0] >= 0 and a[1] != _INF and b[1] != _INF:
            top = 1
            while top <= max(a[1], b[1]):
                top <<= 1
            return (0, top - 1)
        return None
    if isinstance(e, (ast.Name, ast.Attribute)):
        txt = norm(e)
        best = None
        for n in ast.walk(fnode):
            if isinstance(n, ast.Assign) and len(n.targets) == 1 and norm(n.targets[0]) == txt and n.lineno < line:
                if best is None or n.lineno > best.lineno:
                    best = n
        if best is None:
            return None
        return _interval(fnode, best.value, best.lineno, depth + 1)
    return None


def r_cksum(repo, tier):
    out = RuleOut(
        "R-CKSUM",
        "in a record parser the comparison whose operand derives from sum(...) over the record bytes controls rejection: on "
        "every path where stored and computed checksums differ an exception is raised (assert, or an `if` whose mismatching "
        "branch reaches a raise on all paths)",
    )
    n = 0
    for rel, qual in ((HEX, "HEXline.set"), (SREC, "SRECline.set")):
        f = repo.func(rel, qual)
        t = _tainted_by_sum(f.node)
        if not t:
            raise AnalysisError("R-CKSUM: no value derived from sum(...) in %s" % qual)
        cfg = CFG(f.node)
        found = False
        for nd in cfg.nodes:
            s = nd.ast
            if s is None:
                continue
            test = None
            if nd.kind == "assert":
                test = s.test
            elif nd.kind == "test" and isinstance(s, ast.If):
                test = s.test
            if test is None:
                continue
            cmpn = None
            for c in ast.walk(test):
                if isinstance(c, ast.Compare) and len(c.ops) == 1 and isinstance(c.ops[0], (ast.Eq, ast.NotEq)) and (_names_attrs(c) & t):
                    cmpn = c
            if cmpn is None:
                continue
            found = True
            n += 1
            key = "%s::%s" % (f.key, norm(cmpn))
            if nd.kind == "assert":
                ok = isinstance(cmpn.ops[0], ast.Eq)
                out.inst(key, {"parser": qual, "check": norm(s), "form": "assert", "rejects": ok})
                if not ok:
                    out.report(rel, f.dqual, "assert %s" % norm(cmpn), s.lineno, "the checksum assertion is inverted")
            else:
                bad_label = "t" if isinstance(cmpn.ops[0], ast.NotEq) else "f"
                # from the mismatch branch, can a normal exit be reached without passing a raise?
                starts = [m for m, lab in cfg.succ[nd.id] if lab == bad_label]
                raises = {x.id for x in cfg.nodes if x.kind == "raise"}
                escape = None
                for st in starts:
                    if st.id in raises:
                        continue
                    if st.id == cfg.exit.id:
                        escape = [(nd, bad_label), (st, None)]
                        break
                    p = cfg.some_path(st, {cfg.exit.id}, avoid=raises, follow=lambda a, b, lab: lab != "exc")
                    if p is not None:
                        escape = p
                        break
                out.inst(key, {"parser": qual, "check": norm(test), "form": "if", "rejects": escape is None})
                if escape is not None:
                    out.report(rel, f.dqual, "checksum mismatch not rejected: %s" % norm(cmpn), s.lineno, "when the stored checksum differs from the computed one the parser continues to a normal return (path %s): a corrupted record is accepted" % cfg.describe_path(escape))
            # the computed side is a byte: its interval (small abstract interpretation of the defining expressions) lies in [0, 255]
            for side in [cmpn.left] + list(cmpn.comparators):
                if not (_names_attrs(side) & t):
                    continue
                iv = _interval(f.node, side, s.lineno, 0)
                out.inst(key + "::range", {"computed": norm(side), "interval": None if iv is None else [iv[0], iv[1]]})
                if iv is None:
                    out.undecide(rel, f.dqual, norm(side), "range of the computed checksum not determined")
                elif iv[0] < 0 or iv[1] > 255:
                    out.report(rel, f.dqual, "checksum range %s" % norm(side), s.lineno, "the computed checksum `%s` ranges over [%s, %s] but is compared with one byte of the record (0..255): records whose checksum byte falls outside the common range are rejected although they are valid" % (norm(side), iv[0], iv[1]))
        if not found:
            out.report(rel, f.dqual, "no checksum comparison", f.node.lineno, "the parser computes a checksum (%s) but never compares it with the record's checksum field" % sorted(t))
    out.stats["comparisons"] = n
    return out


def r_entry(repo, tier):
    out = RuleOut(
        "R-ENTRY",
        "a format class exposes its entry point through the attribute its constructor stores: in every class defining an "
        "`entrypoints` property that returns [self.X], each attribute the class stores whose name contains 'entrypoint' is X "
        "(a store to a differently named look-alike is a write-only attribute: the value parsed from the file is lost)",
    )
    n = 0
    for rel in ("amoco/system/elf.py", "amoco/system/pe.py", "amoco/system/macho.py", "amoco/system/coff.py", HEX, SREC, "amoco/system/core.py"):
        m = repo.mod(rel)
        for c in m.classes.values():
            ep = c.methods.get("entrypoints")
            if ep is None:
                continue
            rets = [r for r in ast.walk(ep.node) if isinstance(r, ast.Return) and r.value is not None]
            xs = set()
            for r in rets:
                for a in ast.walk(r.value):
                    if isinstance(a, ast.Attribute) and isinstance(a.value, ast.Name) and a.value.id == "self":
                        xs.add(a.attr)
            stores = {}
            loads = set()
            for f in c.methods.values():
                for a in ast.walk(f.node):
                    if isinstance(a, ast.Attribute) and isinstance(a.value, ast.Name) and a.value.id == "self" and "entrypoint" in a.attr.lower():
                        if isinstance(a.ctx, ast.Store):
                            stores.setdefault(a.attr, a)
                        else:
                            loads.add(a.attr)
            n += 1
            out.inst("%s::%s" % (rel, c.name), {"class": c.name, "entrypoints_reads": sorted(xs), "stores": sorted(stores)})
            for a, node in sorted(stores.items()):
                if a not in xs and a not in loads and a != "entrypoints":
                    out.report(rel, c.name, "store self.%s" % a, node.lineno, "%s stores the entry point in self.%s, but its `entrypoints` property returns %s and nothing reads self.%s: the entry address parsed from the file is lost" % (c.name, a, ["self." + x for x in sorted(xs)], a))
    out.stats["classes"] = n
    if n < 4:
        raise AnalysisError("R-ENTRY: only %d classes with an entrypoints property" % n)
    return out


def r_union(repo, tier):
    out = RuleOut(
        "R-UNION",
        "a value that a producer method can return as instances of two different structure classes (Elf.getinfo returns a "
        "section header when sections exist, else a program header) is not used with a field of only one of the classes "
        "unless the use is discriminated by isinstance/hasattr; and a hasattr-discriminated value that is computed must be "
        "the one that is used (no unguarded read of the attribute next to an unused guarded copy)",
    )
    structs = collect_structs(repo, ELF)
    m = repo.mod(ELF)
    elf = m.classes.get("Elf")
    if elf is None or "getinfo" not in elf.methods:
        raise AnalysisError("anchor vanished: Elf.getinfo")
    gi = elf.methods["getinfo"]
    # classes returned: loop variables over self.<List> where the list name is a struct class name
    kinds = set()
    for n in ast.walk(gi.node):
        if isinstance(n, ast.For) and isinstance(n.target, ast.Name):
            src = norm(n.iter)
            for cname in structs:
                if "self.%s" % cname in src:
                    if any(isinstance(r, ast.Return) and isinstance(r.value, ast.Tuple) and r.value.elts and isinstance(r.value.elts[0], ast.Name) and r.value.elts[0].id == n.target.id for r in ast.walk(n)):
                        kinds.add(cname)
    if len(kinds) < 2:
        # other spellings: the two lists are iterated (loop or comprehension) somewhere in getinfo and what is
        # returned first is a plain name
        returns_name = any(isinstance(r, ast.Return) and isinstance(r.value, ast.Tuple) and r.value.elts and isinstance(r.value.elts[0], ast.Name) for r in ast.walk(gi.node))
        for n in ast.walk(gi.node):
            it = n.iter if isinstance(n, (ast.For, ast.comprehension)) else None
            if it is not None and returns_name:
                for cname in structs:
                    if "self.%s" % cname in norm(it):
                        kinds.add(cname)
    if len(kinds) < 2:
        raise AnalysisError("R-UNION: Elf.getinfo no longer returns both section and program headers (found %s)" % sorted(kinds))
    fieldsets = {k: {f.name for f in structs[k].fields} for k in kinds}
    exclusive = {k: fieldsets[k] - set().union(*[v for kk, v in fieldsets.items() if kk != k]) for k in kinds}
    nuse = 0
    for f in elf.methods.values():
        # s, offset, base = self.getinfo(...)
        var = None
        for n in ast.walk(f.node):
            if isinstance(n, ast.Assign) and isinstance(n.value, ast.Call) and norm(n.value.func) == "self.getinfo" and isinstance(n.targets[0], ast.Tuple) and isinstance(n.targets[0].elts[0], ast.Name):
                var = n.targets[0].elts[0].id
        if var is None:
            continue
        nuse += 1
        discr = any(isinstance(c, ast.Call) and norm(c.func) in ("isinstance", "hasattr") and c.args and norm(c.args[0]) == var for c in ast.walk(f.node))
        reads = {}
        for a in ast.walk(f.node):
            if isinstance(a, ast.Attribute) and isinstance(a.value, ast.Name) and a.value.id == var and isinstance(a.ctx, ast.Load):
                for k, ex in exclusive.items():
                    if a.attr in ex:
                        reads.setdefault(k, a)
        out.inst("%s::%s" % (f.key, var), {"consumer": f.dqual, "value": var, "may_be": sorted(kinds), "discriminated": discr, "class_specific_reads": {k: norm(a) for k, a in reads.items()}})
        if reads and not discr and len(reads) < len(kinds):
            k, a = next(iter(reads.items()))
            other = sorted(kinds - {k})
            out.report(ELF, f.dqual, "%s without discrimination" % norm(a), a.lineno, "%s can be a %s (getinfo prefers section headers when the file has them) but %s reads the %s-only field %s without an isinstance test: AttributeError / wrong mapping for files with a section table" % (var, " or ".join(sorted(kinds)), f.dqual, k, norm(a)))
    # guarded copy computed but the unguarded attribute used
    for rel in ("amoco/system/macho.py", "amoco/system/elf.py", "amoco/system/pe.py", "amoco/system/coff.py"):
        mm = repo.mod(rel)
        for f in mm.functions.values():
            for n in _walk_no_nested(f.node):
                if isinstance(n, ast.Assign) and isinstance(n.value, ast.IfExp) and isinstance(n.targets[0], ast.Name):
                    ie = n.value
                    h = [c for c in ast.walk(ie.test) if isinstance(c, ast.Call) and norm(c.func) == "hasattr" and len(c.args) == 2 and isinstance(c.args[1], ast.Constant)]
                    if not h:
                        continue
                    nuse += 1
                    X, a = norm(h[0].args[0]), h[0].args[1].value
                    v = n.targets[0].id
                    used = any(isinstance(x, ast.Name) and x.id == v and isinstance(x.ctx, ast.Load) for x in ast.walk(f.node))
                    raw = [x for x in ast.walk(f.node) if isinstance(x, ast.Attribute) and x.attr == a and norm(x.value) == X and isinstance(x.ctx, ast.Load) and not any(x is y for y in ast.walk(ie))]
                    out.inst("%s::%s" % (f.key, v), {"function": f.dqual, "guarded_copy": norm(n), "copy_used": used, "unguarded_reads": len(raw)})
                    if not used and raw:
                        out.report(rel, f.dqual, "unused guarded copy %s; unguarded %s.%s" % (v, X, a), raw[0].lineno, "%s computes `%s` (which handles objects without attribute %r) but never uses it and reads %s.%s directly: AttributeError for objects that only have the alternative attribute" % (f.dqual, norm(n), a, X, a))
    out.stats["consumers"] = nuse
    return out


FORMAT_FILES = ("amoco/system/elf.py", "amoco/system/pe.py", "amoco/system/macho.py", "amoco/system/coff.py", HEX, SREC)


def format_functions(repo):
    fs = {}
    for rel in FORMAT_FILES:
        m = repo.mod(rel)
        for f in m.functions.values():
            fs[(m.name, f.qual)] = f
    return fs


def r_name_formats(repo, tier):
    from . import names as N

    return N.r_name(repo, format_functions(repo), floor=250)


def r_modattr_formats(repo, tier):
    from . import names as N

    return N.r_modattr(repo, format_functions(repo), floor=0)


def r_priv_formats(repo, tier):
    from . import names as N

    cls = []
    for rel in FORMAT_FILES:
        cls += list(repo.mod(rel).classes.values())
    return N.r_priv(repo, cls, floor=50)


def r_tabwalk(repo, tier):
    out = RuleOut(
        "R-TABWALK",
        "table walkers of the format parsers advance their cursor on every path: in a loop that reads a structure at a cursor "
        "variable (the cursor is an argument of a call in the loop body) and advances it with `cursor += step`, every path "
        "through the body that reaches the next iteration (including `continue`) passes an advance of that cursor",
    )
    n = 0
    for rel in FORMAT_FILES:
        m = repo.mod(rel)
        for f in m.functions.values():
            loops = [l for l in _walk_no_nested(f.node) if isinstance(l, (ast.For, ast.While))]
            if not loops:
                continue
            cfg = None
            for loop in loops:
                # cursors: names aug-assigned (+=) directly in this loop's body (not in nested loops) and used as a call argument in the body
                adv = {}
                for s in loop.body:
                    for x in ast.walk(s):
                        if isinstance(x, ast.AugAssign) and isinstance(x.op, ast.Add) and isinstance(x.target, ast.Name):
                            adv.setdefault(x.target.id, []).append(x)
                if not adv:
                    continue
                used = set()
                for s in loop.body:
                    for c in ast.walk(s):
                        if isinstance(c, ast.Call):
                            for a in list(c.args) + [k.value for k in c.keywords]:
                                if isinstance(a, ast.Name) and a.id in adv:
                                    used.add(a.id)
                        if isinstance(c, ast.Subscript) and isinstance(c.slice, ast.Slice):
                            for a in (c.slice.lower, c.slice.upper):
                                if a is not None:
                                    for z in ast.walk(a):
                                        if isinstance(z, ast.Name) and z.id in adv:
                                            used.add(z.id)
                for cur in sorted(used):
                    # counters such as `count += 1` are not cursors: the step must not be the constant 1 unless the cursor indexes data
                    if cfg is None:
                        cfg = CFG(f.node, may_raise=lambda x: False)
                    head = cfg.stmt_node.get(id(loop))
                    if head is None:
                        continue
                    advn = {cfg.stmt_node[id(a)].id for a in adv[cur] if id(a) in cfg.stmt_node}
                    # also re-assignments of the cursor (cursor = f(...)) count as repositioning
                    body_ids = set()
                    for s in loop.body:
                        for x in ast.walk(s):
                            if id(x) in cfg.stmt_node:
                                body_ids.add(cfg.stmt_node[id(x)].id)
                    for nid in body_ids:
                        nd = cfg.nodes[nid]
                        if nd.kind == "stmt" and isinstance(nd.ast, ast.Assign) and any(isinstance(t, ast.Name) and t.id == cur for t in nd.ast.targets):
                            advn.add(nid)
                    # the read sites of the cursor (call with cursor arg)
                    n += 1
                    # path head -t-> ... -> head avoiding advn, that passes at least one use of the cursor
                    bad = None
                    starts = [mm for mm, lab in cfg.succ[head.id] if lab == "t"]
                    todo = [(st, [head, st]) for st in starts if st.id not in advn and st.id in body_ids]
                    seen = set()
                    while todo and bad is None:
                        nd, path = todo.pop()
                        for mm, lab in cfg.succ[nd.id]:
                            if lab == "exc" or mm.id in advn:
                                continue
                            if mm.id == head.id:
                                # did this path read at the cursor?
                                reads = False
                                for p in path:
                                    if p.ast is not None and p.kind in ("stmt", "test"):
                                        tgt = p.ast.test if p.kind == "test" else p.ast
                                        for c in ast.walk(tgt):
                                            if isinstance(c, ast.Call) and any(isinstance(a, ast.Name) and a.id == cur for a in c.args):
                                                reads = True
                                if reads:
                                    bad = path + [head]
                                    break
                                continue
                            if mm.id in body_ids and (mm.id, len(path)) not in seen and len(path) < 60:
                                seen.add((mm.id, len(path)))
                                todo.append((mm, path + [mm]))
                    out.inst("%s::loop@%s cursor %s" % (f.key, norm(loop).split(":")[0][:50], cur), {"function": f.dqual, "loop": norm(loop).split(":")[0][:60], "cursor": cur, "advance_on_all_paths": bad is None})
                    if bad is not None:
                        out.report(rel, f.dqual, "cursor %s in %s" % (cur, norm(loop).split(":")[0][:60]), loop.lineno, "an iteration can read the table entry at %s and reach the next iteration without advancing %s (path %s): the same entry is read again and the following entries are lost" % (cur, cur, cfg.describe_path([(x, None) for x in bad])))
    out.stats["walkers"] = n
    if n < 10:
        raise AnalysisError("R-TABWALK: only %d table-walking loops found in the format parsers" % n)
    return out


GEOMETRY = [
    # (file, function, [header fields that must flow into a read position / loop bound])
    ("amoco/system/elf.py", "Elf.__init__", ["e_phoff", "e_phnum", "e_phentsize", "e_shoff", "e_shnum", "e_shentsize", "e_shstrndx"]),
    ("amoco/system/pe.py", "PE.__init__", ["e_lfanew", "SizeOfOptionalHeader", "NumberOfSections"]),
]


def r_geom(repo, tier):
    out = RuleOut(
        "R-GEOM",
        "the table geometry a file declares is the geometry the parser uses: each header field giving the position, entry size "
        "or entry count of a table (ELF e_phoff/e_phnum/e_phentsize/e_shoff/e_shnum/e_shentsize/e_shstrndx, PE e_lfanew/"
        "SizeOfOptionalHeader/NumberOfSections) is data-flow connected, inside the constructor, to a read position, a "
        "subscript or a loop bound (a field that is only logged or compared does not position anything)",
    )
    for rel, qual, fields in GEOMETRY:
        f = repo.func(rel, qual)
        fn = f.node
        for fld in fields:
            # taint propagation (flow-insensitive)
            tainted = set()

            def has(e):
                for x in ast.walk(e):
                    if isinstance(x, ast.Attribute) and x.attr == fld:
                        return True
                    if isinstance(x, ast.Name) and x.id in tainted:
                        return True
                return False

            changed = True
            while changed:
                changed = False
                for n in ast.walk(fn):
                    if isinstance(n, ast.Assign):
                        tg, v = n.targets[0], n.value
                        if isinstance(tg, ast.Tuple) and isinstance(v, ast.Tuple) and len(tg.elts) == len(v.elts):
                            pairs = list(zip(tg.elts, v.elts))
                        else:
                            pairs = [(tg, v)]
                        for t, vv in pairs:
                            if isinstance(t, ast.Name) and t.id not in tainted and has(vv):
                                tainted.add(t.id)
                                changed = True
                    elif isinstance(n, ast.AugAssign) and isinstance(n.target, ast.Name) and n.target.id not in tainted and has(n.value):
                        tainted.add(n.target.id)
                        changed = True
            sinks = []
            for n in ast.walk(fn):
                if isinstance(n, ast.Call):
                    fnm = norm(n.func)
                    is_ctor = isinstance(n.func, ast.Name) and n.func.id[:1].isupper()
                    if is_ctor or fnm == "range" or fnm.endswith(".seek") or fnm.endswith(".read"):
                        if any(has(a) for a in n.args):
                            sinks.append(norm(n)[:60])
                elif isinstance(n, ast.Subscript) and has(n.slice):
                    sinks.append(norm(n)[:60])
            out.inst("%s::%s" % (f.key, fld), {"constructor": qual, "field": fld, "flows_to": sinks[:3]})
            present = any(isinstance(x, ast.Attribute) and x.attr == fld for x in ast.walk(fn))
            if not sinks:
                out.report(rel, f.dqual, "geometry field %s unused" % fld, fn.lineno, "%s %s the header field %s but it never reaches a read position, subscript or loop bound: the table is located with something else than what the file declares" % (qual, "reads" if present else "never reads", fld))
    return out


# =========================================================================================== C15
SEGIMG = [
    # (file, class, method, [(file-size field, memory-size field)], helpers whose reads count)
    ("amoco/system/elf.py", "Elf", "loadsegment", ("p_filesz", "p_memsz")),
    ("amoco/system/pe.py", "PE", "loadsegment", ("SizeOfRawData", "VirtualSize")),
    ("amoco/system/macho.py", "MachO", "loadsegment", ("filesize", "vmsize")),
]


def r_segimg(repo, tier):
    out = RuleOut(
        "R-SEGIMG",
        "every loadsegment of a format class derives the returned image from both the file-size and the memory-size field "
        "of its segment type (an image that does not depend on the memory size cannot be zero-filled up to it); every "
        "ljust() padding of an image passes an explicit all-zero fill byte (bytes.ljust pads with 0x20 by default)",
    )
    for rel, cname, mname, (fsz, msz) in SEGIMG:
        m = repo.mod(rel)
        c = m.classes.get(cname)
        if c is None or mname not in c.methods:
            raise AnalysisError("anchor vanished: %s.%s" % (cname, mname))
        f = c.methods[mname]
        # attributes read in the method and in the self.* helpers it calls (one level)
        reads = set()
        fns = [f]
        for x in ast.walk(f.node):
            if isinstance(x, ast.Call) and isinstance(x.func, ast.Attribute) and isinstance(x.func.value, ast.Name) and x.func.value.id == "self":
                g = repo.find_method(c, x.func.attr)
                if g is not None:
                    fns.append(g)
        for g in fns:
            for x in ast.walk(g.node):
                if isinstance(x, ast.Attribute) and isinstance(x.ctx, ast.Load):
                    reads.add(x.attr)
        out.inst("%s::%s.%s" % (rel, cname, mname), {"method": "%s.%s" % (cname, mname), "file_size_field": fsz, "memory_size_field": msz, "reads_file_size": fsz in reads, "reads_memory_size": msz in reads})
        for fld, what in ((fsz, "file size"), (msz, "memory size")):
            if fld not in reads:
                out.report(rel, f.dqual, "%s never read" % fld, f.node.lineno, "%s.%s never reads the segment's %s field %s: the returned image cannot %s" % (cname, mname, what, fld, "be zero-filled up to the size the segment occupies in memory" if what == "memory size" else "be limited to the file-backed part"))
        # "nothing to map" answers: a `return None` may depend on the segment's kind, never on its file size alone
        # (a segment with no file bytes but a memory size is pure zero fill and must still be mapped)
        def enclosing(stmts, target, acc):
            for st in stmts:
                if st is target:
                    return acc
                if isinstance(st, ast.If):
                    for blk in (st.body, st.orelse):
                        r = enclosing(blk, target, acc + [st.test])
                        if r is not None:
                            return r
                else:
                    for blk in (getattr(st, "body", None), getattr(st, "orelse", None), getattr(st, "finalbody", None)):
                        if isinstance(blk, list):
                            r = enclosing(blk, target, acc)
                            if r is not None:
                                return r
                    for h in getattr(st, "handlers", []):
                        r = enclosing(h.body, target, acc)
                        if r is not None:
                            return r
            return None

        for x in ast.walk(f.node):
            if isinstance(x, ast.Return) and (x.value is None or (isinstance(x.value, ast.Constant) and x.value.value is None)):
                tests = enclosing(f.node.body, x, []) or []
                attrs = [{k.attr for k in ast.walk(t) if isinstance(k, ast.Attribute)} for t in tests]
                bad = [t for t, a in zip(tests, attrs) if fsz in a and msz not in a]
                out.inst("%s::return None@%d" % (f.key, x.lineno), {"method": f.dqual, "return_none_under": [norm(t)[:60] for t in tests]})
                for t in bad:
                    out.report(rel, f.dqual, "return None under %s" % norm(t)[:60], x.lineno, "%s.%s answers 'nothing to map' under a test of the file size only (`%s`): a segment with %s == 0 and %s > 0 is pure zero fill and is no longer mapped" % (cname, mname, norm(t)[:60], fsz, msz))
        # ljust fill byte
        for g in fns:
            for x in ast.walk(g.node):
                if isinstance(x, ast.Call) and isinstance(x.func, ast.Attribute) and x.func.attr == "ljust":
                    ok = len(x.args) >= 2 and isinstance(x.args[1], ast.Constant) and isinstance(x.args[1].value, bytes) and x.args[1].value.strip(b"\0") == b""
                    out.inst("%s::%s" % (g.key, norm(x)[-50:]), {"method": g.dqual, "padding": norm(x)[-70:], "explicit_zero_fill": ok})
                    if not ok:
                        out.report(rel, g.dqual, "ljust without zero fill: %s" % norm(x)[-60:], x.lineno, "the image is padded with bytes.ljust without an explicit zero fill byte: the padding is 0x20 (space), not zero")
    return out


def r_loaderpc(repo, tier):
    out = RuleOut(
        "R-LOADPC",
        "every OS loader (load_elf_binary / load_pe_binary / load_macho_binary) stores the file's entry point "
        "(<bin>.entrypoints[0], directly, through a local, or with Task.setx) into the task state, and that store is not "
        "conditional on anything but the kind of load command being processed (it sits at the top level of the loader or "
        "only under `for` loops / tests of the command type)",
    )
    n = 0
    for m in repo.modules.values():
        if not m.name.startswith("amoco.system."):
            continue
        for f in m.functions.values():
            if f.name not in ("load_elf_binary", "load_pe_binary", "load_macho_binary"):
                continue
            n += 1
            evars = set()
            for x in ast.walk(f.node):
                if isinstance(x, ast.Assign) and "entrypoints" in norm(x.value):
                    for t in x.targets:
                        if isinstance(t, ast.Name):
                            evars.add(t.id)

            def derived(e):
                return "entrypoints" in norm(e) or bool({z.id for z in ast.walk(e) if isinstance(z, ast.Name)} & evars)

            stores = []

            def walk(stmts, guards):
                for s in stmts:
                    if isinstance(s, ast.Assign) and any(isinstance(t, ast.Subscript) and norm(t.value).endswith(".state") for t in s.targets) and derived(s.value):
                        stores.append((s, list(guards)))
                    elif isinstance(s, ast.Expr) and isinstance(s.value, ast.Call) and isinstance(s.value.func, ast.Attribute) and s.value.func.attr == "setx" and any(derived(a) for a in s.value.args):
                        stores.append((s, list(guards)))
                    elif isinstance(s, ast.If):
                        walk(s.body, guards + [("if", norm(s.test))])
                        walk(s.orelse, guards + [("if", norm(s.test))])
                    elif isinstance(s, (ast.For, ast.While)):
                        walk(s.body, guards + [("loop", norm(s.iter) if isinstance(s, ast.For) else norm(s.test))])
                    elif isinstance(s, (ast.With, ast.Try)):
                        walk(s.body, guards)

            walk(f.node.body, [])
            ok = False
            for s, g in stores:
                if all(k == "loop" or ".cmd" in t or "p_type" in t for k, t in g):
                    ok = True
            out.inst(f.key, {"loader": f.key, "entry_stores": [norm(s)[:70] for s, _ in stores], "unconditional": ok})
            if not stores:
                out.report(f.file, f.dqual, "no entry point store", f.node.lineno, "%s never stores <bin>.entrypoints[0] into the task state: the program counter of the loaded task is not the file's entry point" % f.dqual)
            elif not ok:
                s, g = stores[0]
                out.report(f.file, f.dqual, "conditional entry point store: %s" % norm(s)[:60], s.lineno, "%s stores the entry point only under %s" % (f.dqual, [t for k, t in g if k == "if"]))
    out.stats["loaders"] = n
    if n < 10:
        raise AnalysisError("R-LOADPC: only %d OS loaders found (12 expected)" % n)
    return out


QUERY_METHODS = ("loadsegment", "readsegment", "readsection", "getdata", "getinfo", "getfileoffset", "locate", "data", "_readcode")


def r_purequery(repo, tier):
    out = RuleOut(
        "R-PUREQUERY",
        "address/segment queries of the format classes (loadsegment, readsegment, readsection, getdata, getinfo, "
        "getfileoffset, locate, data) are functions of the file and their argument only: they store nothing on self (no "
        "memoisation keyed by a field that need not be unique, no cursor left behind); and Elf.loadsegment reads the file at a "
        "position that depends on both p_offset and p_vaddr (the page offset subtracted from the address is subtracted from "
        "the file offset too)",
    )
    n = 0
    for rel, cname in (("amoco/system/elf.py", "Elf"), ("amoco/system/pe.py", "PE"), ("amoco/system/macho.py", "MachO"), ("amoco/system/coff.py", "COFF")):
        c = repo.mod(rel).classes.get(cname)
        if c is None:
            raise AnalysisError("anchor vanished: class %s" % cname)
        for mname in QUERY_METHODS:
            f = c.methods.get(mname)
            if f is None:
                continue
            n += 1
            stores = []
            for x in _walk_no_nested(f.node):
                tg = x.targets if isinstance(x, ast.Assign) else ([x.target] if isinstance(x, ast.AugAssign) else [])
                for t in tg:
                    r = t
                    while isinstance(r, (ast.Attribute, ast.Subscript)):
                        r = r.value
                    if isinstance(r, ast.Name) and r.id == "self" and t is not r:
                        stores.append((x, t))
            out.inst("%s::%s.%s" % (rel, cname, mname), {"query": "%s.%s" % (cname, mname), "stores_on_self": [norm(t) for _, t in stores]})
            for x, t in stores:
                # a memo table whose key contains a file position identifies the section/segment: allowed
                if isinstance(t, ast.Subscript):
                    keytxt = norm(t.slice)
                    for a in ast.walk(f.node):
                        if isinstance(a, ast.Assign) and isinstance(a.targets[0], ast.Name) and isinstance(t.slice, ast.Name) and a.targets[0].id == t.slice.id:
                            keytxt += " " + norm(a.value)
                    if any(k in keytxt for k in ("offset", "PointerToRawData", "id(", "vaddr", "VirtualAddress", "addr")):
                        continue
                out.report(rel, f.dqual, "store %s" % norm(t), x.lineno, "%s keeps state on self (%s): the answer to a later query can depend on earlier queries (e.g. a cache keyed by a section name, which need not be unique)" % (f.dqual, norm(t)))
    # ELF page arithmetic: seek position depends on p_offset and p_vaddr
    f = repo.func("amoco/system/elf.py", "Elf.loadsegment")
    deps = {}
    changed = True
    while changed:
        changed = False
        for x in ast.walk(f.node):
            if isinstance(x, ast.Assign) and isinstance(x.targets[0], (ast.Name, ast.Tuple)):
                src = set()
                for z in ast.walk(x.value):
                    if isinstance(z, ast.Attribute) and z.attr.startswith("p_"):
                        src.add(z.attr)
                    elif isinstance(z, ast.Name) and z.id in deps:
                        src |= deps[z.id]
                # `base, pageoff = helper(...)`: every unpacked name may carry every dependency of the value
                for tn in [k.id for k in ast.walk(x.targets[0]) if isinstance(k, ast.Name)]:
                    if not src <= deps.get(tn, set()):
                        deps[tn] = deps.get(tn, set()) | src
                        changed = True
    seeks = [x for x in ast.walk(f.node) if isinstance(x, ast.Call) and isinstance(x.func, ast.Attribute) and x.func.attr == "seek"]
    if not seeks:
        raise AnalysisError("R-PUREQUERY: no seek() in Elf.loadsegment")
    for sk in seeks:
        src = set()
        for z in ast.walk(sk.args[0]):
            if isinstance(z, ast.Attribute) and z.attr.startswith("p_"):
                src.add(z.attr)
            elif isinstance(z, ast.Name) and z.id in deps:
                src |= deps[z.id]
        n += 1
        out.inst("%s::seek" % f.key, {"seek": norm(sk), "depends_on": sorted(src)})
        for need in ("p_offset", "p_vaddr"):
            if need not in src:
                out.report(f.file, f.dqual, "seek position independent of %s" % need, sk.lineno, "the file position the segment image is read from (%s) does not depend on %s: the image base is the page start of p_vaddr, so the same page offset must be subtracted from p_offset; otherwise segments with p_offset and p_vaddr not congruent modulo the page size are shifted" % (norm(sk.args[0]), need))
    out.stats["queries"] = n
    if n < 12:
        raise AnalysisError("R-PUREQUERY: only %d query methods found" % n)
    return out


# =========================================================================================== record sizes of PE / Mach-O
def r_structsize(repo, tier):
    from ..structmodel import collect_structs, layout, StructM

    out = RuleOut(
        "R-STRUCTSIZE",
        "the size that vstat's C-layout model computes for each PE/COFF and Mach-O record definition (natural alignment unless the "
        "definition says packed=True, exactly what StructCore.size does) equals the size the format fixes for that record "
        "(ref/struct_sizes.json): tables of such records are walked with len(record), so a padded or mis-declared record shifts "
        "every following entry",
    )
    ref = _ref("struct_sizes.json")
    n = 0
    for rel, table in sorted(ref.items()):
        if rel == "comment":
            continue
        structs = collect_structs(repo, rel)
        for cname, want in sorted(table.items()):
            sm = structs.get(cname)
            if not isinstance(sm, StructM):
                out.undecide(rel, cname, "definition", "structure definition not found / not parsed")
                continue
            lay = layout(sm, structs, psize=4)
            n += 1
            got = lay["size"] if isinstance(lay, dict) else None
            out.inst("%s::%s" % (rel, cname), {"record": cname, "computed_size": got, "format_size": want, "packed": bool(sm.packed)})
            if got is None:
                out.undecide(rel, cname, "size", "variable-length field")
            elif got != want:
                out.report(rel, cname, "size %d" % got, sm.cls.node.lineno, "%s is %d bytes as defined (%s), the format's record is %d bytes: a table of these records is walked with the wrong stride" % (cname, got, "packed" if sm.packed else "naturally aligned, tail padding included", want))
    out.stats["records"] = n
    if n < 50:
        raise AnalysisError("R-STRUCTSIZE: only %d record definitions found" % n)
    return out


# =========================================================================================== address composition in HEX / SREC
def r_oradd(repo, tier):
    out = RuleOut(
        "R-ORADD",
        "Intel-HEX / S-record loaders compose a load address from a base (segment << 4 or upper word << 16) and a record offset by "
        "addition.  A bitwise OR is the same only if the two cannot overlap: wherever `|` combines a value derived from a left shift "
        "by k with a record address field of w hex digits (4*w bits), k >= 4*w is required -- otherwise carries are lost",
    )
    n = 0
    for rel in (HEX, SREC):
        m = repo.mod(rel)
        for f in m.functions.values():
            # shift amounts flowing into each local: name -> set of k
            sh = {}
            changed = True
            while changed:
                changed = False
                for a in ast.walk(f.node):
                    if isinstance(a, ast.Assign) and isinstance(a.targets[0], ast.Name):
                        ks = set()
                        for x in ast.walk(a.value):
                            if isinstance(x, ast.BinOp) and isinstance(x.op, ast.LShift) and isinstance(x.right, ast.Constant):
                                ks.add(x.right.value)
                            if isinstance(x, ast.BinOp) and isinstance(x.op, ast.Mult) and isinstance(x.right, ast.Constant) and x.right.value in (16, 65536):
                                ks.add(4 if x.right.value == 16 else 16)
                            if isinstance(x, ast.Name) and x.id in sh:
                                ks |= sh[x.id]
                        if ks - sh.get(a.targets[0].id, set()):
                            sh.setdefault(a.targets[0].id, set()).update(ks)
                            changed = True
            for b in ast.walk(f.node):
                if isinstance(b, ast.BinOp) and isinstance(b.op, (ast.BitOr, ast.Add)):
                    sides = [b.left, b.right]
                    addr = [s_ for s_ in sides if any(isinstance(x, ast.Attribute) and x.attr == "address" for x in ast.walk(s_))]
                    base = [s_ for s_ in sides if s_ not in addr]
                    if not addr or not base:
                        continue
                    ks = set()
                    for x in ast.walk(base[0]):
                        if isinstance(x, ast.Name) and x.id in sh:
                            ks |= sh[x.id]
                        if isinstance(x, ast.BinOp) and isinstance(x.op, ast.LShift) and isinstance(x.right, ast.Constant):
                            ks.add(x.right.value)
                        if isinstance(x, ast.BinOp) and isinstance(x.op, ast.Mult) and isinstance(x.right, ast.Constant) and x.right.value in (16, 65536):
                            ks.add(4 if x.right.value == 16 else 16)
                    if not ks:
                        continue
                    n += 1
                    is_or = isinstance(b.op, ast.BitOr)
                    out.inst("%s::%s" % (f.key, norm(b)), {"function": f.dqual, "composition": norm(b), "operator": "|" if is_or else "+", "base_shifts": sorted(ks)})
                    if is_or and min(ks) < 16:
                        out.report(rel, f.dqual, "address %s" % norm(b), b.lineno, "the load address is composed with `|` from a base that can be a value shifted left by only %d bits and a 16-bit record address: overlapping bits are or-ed instead of added (segment 0x0123, offset 0x0FF0 gives 0x1FF0 instead of 0x2220)" % min(ks))
    out.stats["compositions"] = n
    if n < 1:
        raise AnalysisError("R-ORADD: no base+offset address composition found in HEX/SREC loaders")
    return out
