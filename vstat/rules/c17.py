"""C17 rule set: crash classes visible statically in everything reachable from decode/format/execute."""
from ..callgraph import CallGraph, arch_roots
from ..index import AnalysisError
from . import names as N

_C = {}


def reach(repo):
    """functions reachable from the live cpu modules (those whose import closure loads)."""
    if id(repo) not in _C:
        cg = CallGraph(repo)
        dead = dead_cpus(repo)
        allroots, allinfo = arch_roots(repo, cg)
        roots, info = arch_roots(repo, cg, skip_cpus=dead)
        fs = cg.reachable(roots)
        fall = cg.reachable(allroots)
        info["cpus"] = allinfo["cpus"]
        info["dead_cpus"] = len(dead)
        info["dead_only_functions"] = len(fall) - len(fs)
        _C[id(repo)] = (fs, info)
    return _C[id(repo)]


def r_name_c17(repo, tier):
    fs, info = reach(repo)
    if info["cpus"] < 25 or info["hooks"] < 900 or info["semantics"] < 1300:
        raise AnalysisError("C17 roots shrank: %s" % {k: v for k, v in info.items() if k != "specmods"})
    out = N.r_name(repo, fs, modlevel_mods=info["specmods"], floor=900)
    out.stats.update({k: v for k, v in info.items() if k != "specmods"})
    return out


def r_modattr_c17(repo, tier):
    fs, info = reach(repo)
    return N.r_modattr(repo, fs, floor=900)


def r_priv_c17(repo, tier):
    fs, info = reach(repo)
    cls = {}
    for f in fs.values():
        if f.cls is not None:
            cls[id(f.cls)] = f.cls
    return N.r_priv(repo, cls.values(), floor=5)


def dead_cpus(repo):
    """cpu modules that definitely fail at import time: {cpu: [(file, line, msg, construct)]}"""
    from ..ispecmodel import cpu_table
    from ..callgraph import CallGraph

    key = ("dead", id(repo))
    if key in _C:
        return _C[key]
    cg = CallGraph(repo)
    dead = {}
    errcache = {}
    for cname in sorted(cpu_table(repo)):
        for mn in N.import_closure(repo, cname):
            if mn not in errcache:
                m = repo.modules[mn]
                errs = [(m.rel, n.lineno, msg, cons) for n, msg, cons in N.import_errors(repo, m)]
                for c in N.module_level_calls(m):
                    e = N.call_arity_error(repo, cg, m, c)
                    if e:
                        from ..index import norm

                        errs.append((m.rel, c.lineno, "TypeError at import: " + e, norm(c)[:120]))
                errcache[mn] = errs
            if errcache[mn]:
                # import stops at the first failing statement of a module
                dead.setdefault(cname, []).append(min(errcache[mn], key=lambda e: e[1]))
    _C[key] = dead
    return dead


def r_import_c17(repo, tier):
    from ..harness import RuleOut
    from ..ispecmodel import cpu_table

    out = RuleOut(
        "R-IMPORT",
        "every cpu module's import closure loads: each `from M import a` names a binding or sub-module of an existing amoco "
        "module, and each module-level call of a by-name-resolved amoco function/class matches its signature "
        "(otherwise the ISA cannot be imported at all: ImportError/TypeError before any decoding)",
    )
    dead = dead_cpus(repo)
    cpus = cpu_table(repo)
    seen = set()
    for cname in sorted(cpus):
        out.inst(cname, {"cpu": cname, "import_closure": len(N.import_closure(repo, cname)), "fails": [e[2] for e in dead.get(cname, [])]})
        for rel, line, msg, cons in dead.get(cname, []):
            if (rel, cons) in seen:
                continue
            seen.add((rel, cons))
            cs = sorted(c for c in dead if any(e[0] == rel and e[3] == cons for e in dead[c]))
            out.report(rel, "<module>", cons, line, msg + " -- cpu module %s cannot be imported" % ",".join(cs[:3]))
    if len(cpus) < 25:
        raise AnalysisError("R-IMPORT: %d cpu modules (25 confirmed)" % len(cpus))
    return out


def r_arity_c17(repo, tier):
    """definite TypeError at a call site: wrong number / names of arguments for a by-name-resolved amoco callable"""
    import ast
    from ..harness import RuleOut
    from ..callgraph import CallGraph
    from ..scopes import local_bindings
    from ..index import norm

    out = RuleOut(
        "R-ARITY",
        "a call in a reachable function whose callee resolves by name to exactly one amoco function or class (no local "
        "rebinding, single module-level binding, no decorator that may change the signature, fully resolved base classes for "
        "constructors) passes a number and set of arguments that the signature accepts; otherwise the call is a TypeError "
        "whenever it executes",
    )
    fs, info = reach(repo)
    cg = CallGraph(repo)
    n = 0
    for f in fs.values():
        loc = local_bindings(f.node)
        for c in ast.walk(f.node):
            if not isinstance(c, ast.Call):
                continue
            e = N.call_arity_error(repo, cg, f.mod, c, localnames=loc)
            n += 1
            if e:
                out.inst("%s::%s" % (f.key, norm(c)[:60]), {"site": "%s:%d" % (f.file, c.lineno), "call": norm(c)[:80], "error": e})
                out.report(f.file, f.dqual, norm(c)[:100], c.lineno, "TypeError when line %d executes: %s" % (c.lineno, e))
    # (b) `raise Cls` (no call) instantiates Cls without arguments
    for f in fs.values():
        loc = local_bindings(f.node)
        for r in ast.walk(f.node):
            if isinstance(r, ast.Raise) and isinstance(r.exc, ast.Name) and r.exc.id not in loc:
                fake = ast.Call(func=r.exc, args=[], keywords=[])
                ast.copy_location(fake, r)
                e = N.call_arity_error(repo, cg, f.mod, fake, localnames=loc)
                n += 1
                if e:
                    out.inst("%s::raise %s" % (f.key, r.exc.id), {"site": "%s:%d" % (f.file, r.lineno), "raise": norm(r), "error": e})
                    out.report(f.file, f.dqual, norm(r), r.lineno, "`raise %s` instantiates the class without arguments: TypeError (%s) instead of the intended exception" % (r.exc.id, e))
    # (c) the mapper parameter of semantics functions: icore.__call__ calls i_xxx(self, fmap) with a mapper, whose
    #     __call__(self, x) takes exactly one expression
    mp = repo.mod("amoco/cas/mapper.py").classes.get("mapper")
    mcall = mp.methods.get("__call__") if mp else None
    if mcall is not None:
        npos = len(mcall.node.args.args) - 1
        for f in fs.values():
            if not f.name.startswith("i_") or f.cls is not None or len(f.params()) < 2:
                continue
            fm = f.params()[1]
            rebound = any(isinstance(a, ast.Name) and a.id == fm and isinstance(a.ctx, ast.Store) for a in ast.walk(f.node))
            if rebound:
                continue
            for c in ast.walk(f.node):
                if isinstance(c, ast.Call) and isinstance(c.func, ast.Name) and c.func.id == fm:
                    n += 1
                    if len(c.args) > npos and not any(isinstance(a, ast.Starred) for a in c.args):
                        out.inst("%s::%s" % (f.key, norm(c)[:60]), {"site": "%s:%d" % (f.file, c.lineno), "call": norm(c)[:80]})
                        out.report(f.file, f.dqual, norm(c)[:100], c.lineno, "the semantics function calls its mapper argument with %d arguments; mapper.__call__ takes %d (TypeError when line %d executes)" % (len(c.args), npos, c.lineno))
    out.instances = max(out.instances, 1)
    out.stats["calls_examined"] = n
    out.nontrivial.add("calls")
    if n < 10000:
        raise AnalysisError("R-ARITY: only %d calls examined" % n)
    return out


def r_unbound_c17(repo, tier):
    """definitely-unbound locals: every definition reaching the use is 'none' (UnboundLocalError on every execution)"""
    import ast
    from ..harness import RuleOut
    from ..cfg import CFG, reaching_defs, _walk_no_nested
    from ..scopes import local_bindings
    from ..index import norm

    out = RuleOut(
        "R-UNBOUND",
        "a local variable of a reachable function is never read at a point that no assignment of it can reach "
        "(reaching definitions on the statement CFG: the only 'definition' reaching the read is function entry) -- such a read "
        "raises UnboundLocalError whenever it executes; reads that some assignment may reach are not reported",
    )
    fs, info = reach(repo)
    nfun = 0
    for f in fs.values():
        fn = f.node
        params = set(f.params()) | ({fn.args.vararg.arg} if fn.args.vararg else set()) | ({fn.args.kwarg.arg} if fn.args.kwarg else set())
        stores = {}
        loads = {}
        gl = set()
        def walk_scope(node):
            # own scope only: comprehensions and lambdas are scopes of their own in Python 3
            todo = [node]
            while todo:
                x = todo.pop()
                yield x
                for ch in ast.iter_child_nodes(x):
                    if isinstance(ch, (ast.FunctionDef, ast.AsyncFunctionDef, ast.Lambda, ast.ClassDef, ast.ListComp, ast.SetComp, ast.DictComp, ast.GeneratorExp)):
                        continue
                    todo.append(ch)

        for n in walk_scope(fn):
            if isinstance(n, ast.Name):
                if isinstance(n.ctx, ast.Store):
                    stores.setdefault(n.id, []).append(n)
                elif isinstance(n.ctx, ast.Load):
                    loads.setdefault(n.id, []).append(n)
            elif isinstance(n, (ast.Global, ast.Nonlocal)):
                gl.update(n.names)
        cands = []
        for v, st in stores.items():
            if v in params or v in gl or v not in loads:
                continue
            first_store = min((s.lineno, s.col_offset) for s in st)
            early = [l for l in loads[v] if (l.lineno, l.col_offset) < first_store]
            if early:
                cands.append(v)
        nfun += 1
        if not cands:
            continue
        # nested function / comprehension bindings make the simple model unsafe: skip functions defining inner scopes that bind the name
        cfg = CFG(fn, may_raise=lambda x: False)
        for v in cands:
            if any(isinstance(n, (ast.Import, ast.ImportFrom)) and any((a.asname or a.name).split(".")[0] == v for a in n.names) for n in ast.walk(fn)):
                continue
            if any(isinstance(n, (ast.For, ast.comprehension)) and any(isinstance(t, ast.Name) and t.id == v for t in ast.walk(n.target)) for n in ast.walk(fn)) and False:
                continue
            rd = reaching_defs(cfg, v)
            for nd in cfg.nodes:
                if nd.ast is None or nd.id not in rd:
                    continue
                tgt = nd.ast.test if nd.kind == "test" else (nd.ast.iter if nd.kind == "for" else nd.ast)
                uses = [x for x in walk_scope(tgt) if isinstance(x, ast.Name) and x.id == v and isinstance(x.ctx, ast.Load)]
                if not uses:
                    continue
                # AugAssign target counts as a read too
                if rd[nd.id] == frozenset([cfg.entry.id]):
                    # the statement itself may bind v before reading it only in `for v in ...` (handled: target not a load)
                    out.inst("%s::%s" % (f.key, v), {"site": "%s:%d" % (f.file, nd.line), "variable": v, "statement": norm(nd.ast)[:80]})
                    out.report(f.file, f.dqual, "unbound %s" % v, nd.line, "local variable %r is read at line %d but no assignment of it can reach that point (it is assigned only later / on other branches): UnboundLocalError whenever the line executes" % (v, nd.line))
                    break
    out.instances = max(out.instances, nfun)
    out.nontrivial.add("functions")
    out.stats["functions"] = nfun
    return out


def r_dupkey_c17(repo, tier):
    mods = [m.name for m in repo.modules.values() if m.name.startswith("amoco.arch.") or m.name in ("amoco.cas.expressions", "amoco.cas.mapper")]
    return N.r_dupkey(repo, mods)


# ======================================================================================= attributes of the instruction object
def r_objattr_c17(repo, tier):
    """reads of instruction attributes in semantics / formatters vs what the decoder of the same cpu can have set"""
    import ast
    from ..ispecmodel import cpu_table
    from ..index import norm
    from .spec import spec_includes, specs
    from ..callgraph import CallGraph
    from ..harness import RuleOut

    out = RuleOut(
        "R-OBJATTR",
        "per cpu module: an attribute read on the instruction parameter of a semantic function i_M (M a mnemonic some spec of the cpu "
        "can produce) or of a spec setup function exists -- it is an attribute/method of the instruction classes of arch/core.py or "
        "of the cpu's own instruction class, a '.field' / keyword attribute of some spec of the cpu, or is stored (obj.X = ...) by "
        "some setup function or helper of the cpu's spec modules; otherwise applying / decoding raises AttributeError",
    )
    cg = CallGraph(repo)
    cpus = cpu_table(repo)
    dead = dead_cpus(repo)
    ext = spec_includes(repo)
    decls, _ = specs(repo)
    by_mod = {}
    for s in decls:
        by_mod.setdefault(s.func.mod.name, []).append(s)
    core = repo.mod("amoco/arch/core.py")
    base = set()
    for cn in ("icore", "instruction"):
        c = core.classes.get(cn)
        if c is None:
            raise AnalysisError("R-OBJATTR: class %s vanished from arch/core.py" % cn)
        base |= set(c.methods)
        for f in c.methods.values():
            for n in ast.walk(f.node):
                if isinstance(n, ast.Attribute) and isinstance(n.value, ast.Name) and n.value.id == "self" and isinstance(n.ctx, ast.Store):
                    base.add(n.attr)
        for s in c.node.body:
            if isinstance(s, ast.Assign):
                for t in s.targets:
                    if isinstance(t, ast.Name):
                        base.add(t.id)
    base |= {"__class__", "__dict__"}
    INS = ("i", "ins", "obj", "instr", "insn", "instruction")
    nreads = 0
    for cname, ent in sorted(cpus.items()):
        if cname in dead:
            continue
        sms = set()
        for sm in ent["specmods"]:
            if sm:
                sms.add(sm)
                sms |= ext.get(sm, set())
        W = set(base)
        mnems = set()
        dynamic_mnemonic = False
        hookfuncs = {}
        for sm in sms:
            for s in by_mod.get(sm, []):
                W |= s.attrs()
                if s.mnemonic:
                    mnems.add(s.mnemonic)
                hookfuncs[s.func.key] = s.func
        # helpers of the spec modules and of the package's utils that receive the instruction
        helpers = dict(hookfuncs)
        for f in list(cg.reachable(list(hookfuncs.values())).values()):
            if f.mod.name.startswith("amoco.arch."):
                helpers[f.key] = f
        for f in helpers.values():
            ps = f.params()
            for n in ast.walk(f.node):
                if isinstance(n, ast.Attribute) and isinstance(n.ctx, ast.Store) and isinstance(n.value, ast.Name) and n.value.id in ps[:2] + list(INS):
                    W.add(n.attr)
                    if n.attr == "mnemonic":
                        pass
                if isinstance(n, ast.Call) and isinstance(n.func, ast.Name) and n.func.id == "setattr" and len(n.args) >= 2:
                    if isinstance(n.args[1], ast.Constant):
                        W.add(n.args[1].value)
                    else:
                        W.add("*")
                if isinstance(n, ast.Assign) and any(isinstance(t, ast.Attribute) and t.attr == "mnemonic" for t in n.targets):
                    vals = [k.value for k in ast.walk(n.value) if isinstance(k, ast.Constant) and isinstance(k.value, str)]
                    if vals and not any(isinstance(k, (ast.Name, ast.Subscript, ast.Call)) for k in ast.walk(n.value) if not isinstance(k, ast.Constant)):
                        mnems |= set(vals)
                    else:
                        mnems |= set(vals)
                        dynamic_mnemonic = True
        # the cpu's own instruction class (class X(instruction) in the cpu module / its imports)
        cm = repo.modules[cname]
        for c in repo.all_classes():
            if c.mod.name == cname or c.mod.name in sms or c.mod.name.rpartition(".")[0] == cname.rpartition(".")[0]:
                if any(b in ("instruction", "icore") for b in c.bases if b):
                    W |= set(c.methods)
                    for f in c.methods.values():
                        for n in ast.walk(f.node):
                            if isinstance(n, ast.Attribute) and isinstance(n.value, ast.Name) and n.value.id == "self" and isinstance(n.ctx, ast.Store):
                                W.add(n.attr)
        if "*" in W:
            continue
        # readers: hooks+helpers (always), semantics of decodable mnemonics
        readers = dict(helpers)
        for name in sorted(repo.namespace(cname)):
            if name.startswith("i_") and name[2:] in mnems:
                t = cg.resolve_name(cm, name)
                if t is not None and not isinstance(t, tuple) and not hasattr(t, "methods"):
                    readers[t.key] = t
        for f in readers.values():
            ps = f.params()
            if not ps or ps[0] not in INS:
                continue
            o = ps[0]
            if any(isinstance(n, ast.Name) and n.id == o and isinstance(n.ctx, ast.Store) for n in ast.walk(f.node)):
                continue
            guarded = {n.args[1].value for n in ast.walk(f.node) if isinstance(n, ast.Call) and isinstance(n.func, ast.Name) and n.func.id in ("hasattr", "getattr") and len(n.args) >= 2 and isinstance(n.args[1], ast.Constant)}
            for n in ast.walk(f.node):
                if isinstance(n, ast.Attribute) and isinstance(n.value, ast.Name) and n.value.id == o and isinstance(n.ctx, ast.Load):
                    nreads += 1
                    if n.attr in W or n.attr in guarded:
                        continue
                    out.report(f.file, f.dqual, "%s.%s" % (o, n.attr), n.lineno, "%s reads the instruction attribute `%s`, which no spec field, keyword attribute or setup function of %s ever sets and which the instruction classes do not define: AttributeError when this instruction is %s" % (f.dqual, n.attr, cname, "applied to a map" if f.dqual.startswith("i_") else "decoded"), detail={"cpu": cname})
        out.inst(cname, {"cpu": cname, "settable_attributes": len(W), "mnemonics": len(mnems), "readers": len(readers)})
    out.stats["attribute_reads"] = nreads
    if nreads < 2000:
        raise AnalysisError("R-OBJATTR: only %d attribute reads analysed" % nreads)
    return out


def r_miscnone_c17(repo, tier):
    """instruction.misc is a defaultdict whose missing entries read as None"""
    import ast
    from ..cfg import CFG
    from ..harness import RuleOut
    from ..index import norm

    out = RuleOut(
        "R-MISCNONE",
        "`<ins>.misc` is a defaultdict whose absent entries read as None (arch/core.py).  Every place of amoco/arch that indexes into "
        "an entry (`x.misc[k][j]`) does so only after a test of a misc entry: the same boolean expression tests one to its left, or "
        "a test mentioning `.misc[` lies on every path from the function entry (enclosing if, or early return)",
    )
    core = repo.mod("amoco/arch/core.py")
    if not any(isinstance(n, ast.Call) and norm(n.func) == "defaultdict" for n in ast.walk(core.classes["icore"].node)):
        raise AnalysisError("R-MISCNONE: icore.misc is no longer a defaultdict (anchor changed)")
    fs, info = reach(repo)
    n = 0
    for f in fs.values():
        if not f.mod.name.startswith("amoco.arch."):
            continue
        sites = [x for x in ast.walk(f.node) if isinstance(x, ast.Subscript) and isinstance(x.ctx, ast.Load) and isinstance(x.value, ast.Subscript) and isinstance(x.value.value, ast.Attribute) and x.value.value.attr == "misc"]
        if not sites:
            continue
        cfg = CFG(f.node, may_raise=lambda x: False)
        tests = {nd.id for nd in cfg.nodes if nd.kind == "test" and nd.ast is not None and ".misc[" in norm(getattr(nd.ast, "test", nd.ast))}
        # parents for BoolOp-left lookup
        parents = {}
        for p in ast.walk(f.node):
            for ch in ast.iter_child_nodes(p):
                parents[id(ch)] = p
        for x in sites:
            n += 1
            guarded = False
            # (a) an operand to the left in an enclosing `and` mentions .misc[ ; or the condition of an enclosing IfExp
            cur = x
            while id(cur) in parents and not guarded:
                p = parents[id(cur)]
                if isinstance(p, ast.BoolOp) and isinstance(p.op, ast.And):
                    idx = next((k for k, v in enumerate(p.values) if v is cur), 0)
                    if any(".misc[" in norm(v) for v in p.values[:idx]):
                        guarded = True
                if isinstance(p, ast.IfExp) and cur is not p.test and ".misc[" in norm(p.test):
                    guarded = True
                if isinstance(p, (ast.stmt,)):
                    stmt = p
                    break
                cur = p
            else:
                stmt = None
            # (b) dominated by a test mentioning .misc[
            if not guarded and stmt is not None:
                nd = cfg.stmt_node.get(id(stmt))
                if nd is not None:
                    if nd.kind == "test" and isinstance(stmt, (ast.If, ast.While)) and False:
                        pass
                    guarded = nd.id not in cfg.reachable_from(cfg.entry, avoid=tests - {nd.id}) or (nd.id in tests and False)
                    if nd.id in tests:
                        # the site sits in a test that itself mentions .misc[: is there an earlier one?
                        guarded = nd.id not in cfg.reachable_from(cfg.entry, avoid=tests - {nd.id})
            out.inst("%s::%s@%d" % (f.key, norm(x), x.lineno), {"function": f.dqual, "index": norm(x), "guarded": guarded})
            if not guarded:
                out.report(f.file, f.dqual, "index %s" % norm(x), x.lineno, "`%s` indexes a misc entry that reads as None when no prefix/flag set it, and no test of a misc entry precedes it: TypeError ('NoneType' object is not subscriptable) escapes the disassembler / formatter" % norm(x))
    out.stats["sites"] = n
    if n < 8:
        raise AnalysisError("R-MISCNONE: only %d misc entry indexings found" % n)
    return out
