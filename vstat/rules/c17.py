"""C17 rule set: crash classes visible statically in everything reachable from decode/format/execute."""
from ..callgraph import CallGraph, arch_roots
from ..index import AnalysisError
from . import names as N

_C = {}


def reach(repo):
    """functions reachable from the live cpu modules (those whose import closure loads)."""
    if id(repo) not in _C:
        cg = CallGraph(repo)
        dead = dead_cpus(repo)
        allroots, allinfo = arch_roots(repo, cg)
        roots, info = arch_roots(repo, cg, skip_cpus=dead)
        fs = cg.reachable(roots)
        fall = cg.reachable(allroots)
        info["cpus"] = allinfo["cpus"]
        info["dead_cpus"] = len(dead)
        info["dead_only_functions"] = len(fall) - len(fs)
        _C[id(repo)] = (fs, info)
    return _C[id(repo)]


def r_name_c17(repo, tier):
    fs, info = reach(repo)
    if info["cpus"] < 25 or info["hooks"] < 900 or info["semantics"] < 1300:
        raise AnalysisError("C17 roots shrank: %s" % {k: v for k, v in info.items() if k != "specmods"})
    out = N.r_name(repo, fs, modlevel_mods=info["specmods"], floor=900)
    out.stats.update({k: v for k, v in info.items() if k != "specmods"})
    return out


def r_modattr_c17(repo, tier):
    fs, info = reach(repo)
    return N.r_modattr(repo, fs, floor=900)


def r_priv_c17(repo, tier):
    fs, info = reach(repo)
    cls = {}
    for f in fs.values():
        if f.cls is not None:
            cls[id(f.cls)] = f.cls
    return N.r_priv(repo, cls.values(), floor=5)


def dead_cpus(repo):
    """cpu modules that definitely fail at import time: {cpu: [(file, line, msg, construct)]}"""
    from ..ispecmodel import cpu_table
    from ..callgraph import CallGraph

    key = ("dead", id(repo))
    if key in _C:
        return _C[key]
    cg = CallGraph(repo)
    dead = {}
    errcache = {}
    for cname in sorted(cpu_table(repo)):
        for mn in N.import_closure(repo, cname):
            if mn not in errcache:
                m = repo.modules[mn]
                errs = [(m.rel, n.lineno, msg, cons) for n, msg, cons in N.import_errors(repo, m)]
                for c in N.module_level_calls(m):
                    e = N.call_arity_error(repo, cg, m, c)
                    if e:
                        from ..index import norm

                        errs.append((m.rel, c.lineno, "TypeError at import: " + e, norm(c)[:120]))
                errcache[mn] = errs
            if errcache[mn]:
                # import stops at the first failing statement of a module
                dead.setdefault(cname, []).append(min(errcache[mn], key=lambda e: e[1]))
    _C[key] = dead
    return dead


def r_import_c17(repo, tier):
    from ..harness import RuleOut
    from ..ispecmodel import cpu_table

    out = RuleOut(
        "R-IMPORT",
        "every cpu module's import closure loads: each `from M import a` names a binding or sub-module of an existing amoco "
        "module, and each module-level call of a by-name-resolved amoco function/class matches its signature "
        "(otherwise the ISA cannot be imported at all: ImportError/TypeError before any decoding)",
    )
    dead = dead_cpus(repo)
    cpus = cpu_table(repo)
    seen = set()
    for cname in sorted(cpus):
        out.inst(cname, {"cpu": cname, "import_closure": len(N.import_closure(repo, cname)), "fails": [e[2] for e in dead.get(cname, [])]})
        for rel, line, msg, cons in dead.get(cname, []):
            if (rel, cons) in seen:
                continue
            seen.add((rel, cons))
            cs = sorted(c for c in dead if any(e[0] == rel and e[3] == cons for e in dead[c]))
            out.report(rel, "<module>", cons, line, msg + " -- cpu module %s cannot be imported" % ",".join(cs[:3]))
    if len(cpus) < 25:
        raise AnalysisError("R-IMPORT: %d cpu modules (25 confirmed)" % len(cpus))
    return out
