"""R-BOUNDARY: the reviewed table of boundary comparisons (ref/boundaries.json).

Many clauses of the properties come down to *where a half-open range ends*: "a block overlaps the next one iff its end is
strictly above the next start", "an address is file backed iff it is below p_vaddr+p_filesz", "sub-fields fit while their
total is at most the container width".  Such a clause is visible in the code as one integer comparison.  Each table row names
a function and the comparison it must make, with the reason read from the format documentation / the data-structure
invariant.  The rule does not match text:

  * both sides are brought to an integer-linear form over atoms (locals that are assigned exactly once are inlined, the row's
    variables are matched to the function's up to renaming), so renaming a variable, introducing a temporary,
    swapping the sides, writing `not (a < b)` for `a >= b`, `a <= b - 1` for `a < b`, or splitting/merging a chained comparison
    leaves the row satisfied;
  * what is compared is the *partition* of the integers the comparison makes ({F < 0} against {F >= 0}); a comparison and its
    negation denote the same partition (an if/else can be written either way round);
  * a comparison over the same atoms with another partition (`>=` for `>`, an off-by-one constant) is reported as moved
    boundary; if no comparison of the function -- nor of any other function of the module -- has the row's partition the
    row is reported as absent, naming the nearest comparison of the function.
"""
import ast
import json
import os

from .. import VERIF
from ..harness import RuleOut
from ..index import AnalysisError, norm


def load_table():
    with open(os.path.join(VERIF, "ref", "boundaries.json")) as fh:
        return json.load(fh)["rows"]


class _Ctx:
    def __init__(self, fnode):
        self.fnode = fnode
        self.locals = set()
        a = fnode.args
        for x in a.posonlyargs + a.args + a.kwonlyargs:
            self.locals.add(x.arg)
        if a.vararg:
            self.locals.add(a.vararg.arg)
        if a.kwarg:
            self.locals.add(a.kwarg.arg)
        counts = {}
        self.single = {}
        for n in ast.walk(fnode):
            if isinstance(n, ast.Name) and isinstance(n.ctx, ast.Store):
                self.locals.add(n.id)
                counts[n.id] = counts.get(n.id, 0) + 1
            elif isinstance(n, ast.AugAssign) and isinstance(n.target, ast.Name):
                counts[n.target.id] = counts.get(n.target.id, 0) + 2
        for n in ast.walk(fnode):
            if isinstance(n, ast.Assign) and len(n.targets) == 1 and isinstance(n.targets[0], ast.Name) and counts.get(n.targets[0].id) == 1:
                self.single[n.targets[0].id] = n.value
            # `lo, hi = nk`  reads as  lo = nk[0], hi = nk[1]
            if isinstance(n, ast.Assign) and len(n.targets) == 1 and isinstance(n.targets[0], ast.Tuple) and isinstance(n.value, ast.Name) and all(isinstance(e, ast.Name) for e in n.targets[0].elts):
                for k, e in enumerate(n.targets[0].elts):
                    if counts.get(e.id) == 1:
                        self.single[e.id] = ast.Subscript(value=ast.Name(id=n.value.id, ctx=ast.Load()), slice=ast.Constant(value=k), ctx=ast.Load())
        self.locals.discard("self")
        self.locals.discard("cls")


def _atom_text(e, ctx):
    return norm(e)


def linform(e, ctx, depth=0):
    """{atom: coef, 1: const} or None"""
    if isinstance(e, ast.Constant) and isinstance(e.value, int) and not isinstance(e.value, bool):
        return {1: e.value}
    if isinstance(e, ast.BinOp) and isinstance(e.op, (ast.Add, ast.Sub)):
        a, b = linform(e.left, ctx, depth), linform(e.right, ctx, depth)
        if a is None or b is None:
            return None
        s = 1 if isinstance(e.op, ast.Add) else -1
        r = dict(a)
        for k, v in b.items():
            r[k] = r.get(k, 0) + s * v
        return {k: v for k, v in r.items() if v}
    if isinstance(e, ast.BinOp) and isinstance(e.op, ast.Mult):
        for c, x in ((e.left, e.right), (e.right, e.left)):
            if isinstance(c, ast.Constant) and isinstance(c.value, int):
                a = linform(x, ctx, depth)
                return None if a is None else {k: v * c.value for k, v in a.items() if v * c.value}
    if isinstance(e, ast.UnaryOp) and isinstance(e.op, ast.USub):
        a = linform(e.operand, ctx, depth)
        return None if a is None else {k: -v for k, v in a.items()}
    if isinstance(e, ast.Name) and e.id in ctx.single and depth < 4:
        a = linform(ctx.single[e.id], ctx, depth + 1)
        if a is not None and not any(isinstance(x, (ast.Call,)) and not _pure_call(x) for x in ast.walk(ctx.single[e.id])):
            return a
    if isinstance(e, (ast.Name, ast.Attribute, ast.Subscript, ast.Call, ast.BinOp)):
        return {_atom_text(e, ctx): 1}
    return None


def _pure_call(c):
    return isinstance(c.func, ast.Name) and c.func.id in ("len", "min", "max", "sum", "int", "abs")


def partition(left, op, right, ctx, negate=False):
    """canonical partition of `left op right`: (kind, frozenset(form.items())) with kind 'ord' or 'eq'."""
    a, b = linform(left, ctx), linform(right, ctx)
    if a is None or b is None:
        return None
    f = dict(a)
    for k, v in b.items():
        f[k] = f.get(k, 0) - v
    f = {k: v for k, v in f.items() if v}
    # bring to F < 0
    if isinstance(op, ast.Lt):
        pass
    elif isinstance(op, ast.LtE):  # L <= R  ==  L-R-1 < 0
        f[1] = f.get(1, 0) - 1
    elif isinstance(op, ast.Gt):  # L > R == R-L < 0
        f = {k: -v for k, v in f.items()}
    elif isinstance(op, ast.GtE):  # L >= R == R-L-1 < 0
        f = {k: -v for k, v in f.items()}
        f[1] = f.get(1, 0) - 1
    elif isinstance(op, (ast.Eq, ast.NotEq)):
        f = {k: v for k, v in f.items() if v}
        lead = sorted((k for k in f if k != 1), key=str)
        if lead and f[lead[0]] < 0:
            f = {k: -v for k, v in f.items()}
        return ("eq", frozenset(f.items()))
    else:
        return None
    f = {k: v for k, v in f.items() if v}
    # a comparison and its negation make the same partition: F < 0  |  -F-1 < 0 ; choose the representative whose leading atom is positive
    lead = sorted((k for k in f if k != 1), key=str)
    if lead and f[lead[0]] < 0:
        f = {k: -v for k, v in f.items()}
        f[1] = f.get(1, 0) - 1
        f = {k: v for k, v in f.items() if v}
    return ("ord", frozenset(f.items()))


def _atoms(p):
    return frozenset((k, v) for k, v in p[1] if k != 1)


def _show(p):
    if p is None:
        return "?"
    items = sorted(p[1], key=lambda kv: str(kv[0]))
    s = " ".join("%+d*%s" % (v, k) if k != 1 else "%+d" % v for k, v in items)
    return "%s %s 0" % (s, "<" if p[0] == "ord" else "==")


def _links(cmpnode):
    """comparison links (left, op, right) of a Compare; `x in range(a[, b])` reads as  a0 <= x  and  x < b"""
    out = []
    left = cmpnode.left
    for op, right in zip(cmpnode.ops, cmpnode.comparators):
        if isinstance(op, (ast.In, ast.NotIn)) and isinstance(right, ast.Call) and isinstance(right.func, ast.Name) and right.func.id == "range" and 1 <= len(right.args) <= 2 and not right.keywords:
            lo = ast.Constant(value=0) if len(right.args) == 1 else right.args[0]
            hi = right.args[-1]
            out.append((lo, ast.LtE(), left))
            out.append((left, ast.Lt(), hi))
        else:
            out.append((left, op, right))
        left = right
    return out


def comparisons(fnode, ctx):
    """every comparison link of the function: (partition, node, text)"""
    res = []
    for n in ast.walk(fnode):
        if isinstance(n, ast.Compare):
            for left, op, right in _links(n):
                p = partition(left, op, right, ctx)
                if p is not None:
                    res.append((p, n, norm(n)))
    return res


_BUILTINS = ("self", "len", "min", "max", "sum", "int", "abs")


def row_links(text):
    t = ast.parse(text, mode="eval").body
    if isinstance(t, ast.UnaryOp) and isinstance(t.op, ast.Not):
        t = t.operand
    if not isinstance(t, ast.Compare):
        raise AnalysisError("boundaries.json: %r is not a comparison" % text)
    return _links(t)


def _names(e):
    return sorted({n.id for n in ast.walk(e) if isinstance(n, ast.Name) and n.id not in _BUILTINS and not n.id.isupper()})


class _Ren(ast.NodeTransformer):
    def __init__(self, m):
        self.m = m

    def visit_Name(self, n):
        return ast.copy_location(ast.Name(id=self.m.get(n.id, n.id), ctx=ast.Load()), n)


def _rename(e, m):
    import copy

    return _Ren(m).visit(copy.deepcopy(e))


def match_link(link, cmps, ctx, allow_rename=True):
    """find the row's comparison among those of one function, up to a renaming of the row's variables.
    returns ('ok', cmp) / ('moved', cmp, row_partition) / None"""
    import itertools
    import re

    left, op, right = link
    rn = sorted(set(_names(left)) | set(_names(right)))
    moved = None
    res = _match_link(link, cmps, ctx, allow_rename, strict_names=True)
    if res is None and allow_rename and all(x in ctx.locals for x in rn):
        # every variable of the row still exists but none of the function's comparisons is over them (not even with another
        # cut): a variable may have been replaced by the value it was a copy of (`r = v; .. oldr.size > r.size` written as
        # `oldr.size > v.size`).  Only an exact match counts here, never a `moved` one
        res = _match_link(link, cmps, ctx, True, strict_names=False)
        if res is not None and res[0] != "ok":
            res = None
    return res


def _match_link(link, cmps, ctx, allow_rename, strict_names):
    import itertools
    import re

    left, op, right = link
    rn = sorted(set(_names(left)) | set(_names(right)))
    moved = None
    for c in cmps:
        # local names occurring in the code comparison (after inlining)
        txt = " ".join(str(k) for k, v in c[0][1])
        cn = sorted({w for w in re.findall(r"[A-Za-z_][A-Za-z_0-9]*", txt) if w in ctx.locals} | {n.id for n in ast.walk(c[1]) if isinstance(n, ast.Name) and n.id in ctx.locals})
        if len(cn) < len(rn) and not all(x in ctx.locals for x in rn):
            continue
        # the row is written with the function's variable names: while they all still exist, they denote themselves;
        # only if one of them is gone (renamed) are the row's variables matched up to renaming
        if strict_names and all(x in ctx.locals for x in rn):
            perms = [tuple(rn)]
        elif allow_rename:
            perms = itertools.permutations(cn, len(rn))
        else:
            perms = []
        for perm in perms:
            m = dict(zip(rn, perm))
            # the renamed row is read in the function's own context (same inlining), but its variables must not be inlined twice
            w = partition(_rename(left, m), op, _rename(right, m), ctx)
            if w is None:
                continue
            if w == c[0]:
                return ("ok", c, w)
            if moved is None and w[0] == c[0][0] and (_atoms(w) == _atoms(c[0]) or _atoms(w) == frozenset((k, -v) for k, v in _atoms(c[0]))):
                moved = ("moved", c, w)
    return moved


def r_boundary(pid):
    def rule(repo, tier):
        out = RuleOut(
            "R-BOUNDARY",
            "each reviewed boundary comparison of ref/boundaries.json (function, expected comparison, reason) is made by its function: "
            "compared as partitions of the integers after bringing both sides to integer-linear form (single-assignment locals inlined, "
            "variables matched up to renaming, sides/negation/chaining/`<= n-1` normalised); a comparison over the same quantities that "
            "cuts elsewhere (`>=` for `>`, off-by-one) or the absence of the comparison from the whole module is reported",
        )
        rows = [r for r in load_table() if pid in r["properties"]]
        if not rows:
            raise AnalysisError("R-BOUNDARY: no table row for %s" % pid)
        for r in rows:
            m = repo.mod(r["file"])
            f = m.functions.get(r["function"])
            if f is not None:
                f = repo.func(r["file"], r["function"])  # second view: private helpers expanded, temporaries folded
            key = "%s::%s::%s" % (r["file"], r["function"], r["expect"])
            for k, link in enumerate(row_links(r["expect"])):
                linktxt = "%s %s %s" % (norm(link[0]), {ast.Lt: "<", ast.LtE: "<=", ast.Gt: ">", ast.GtE: ">=", ast.Eq: "==", ast.NotEq: "!="}[type(link[1])], norm(link[2]))
                res = None
                here = []
                if f is not None:
                    ctx = _Ctx(f.node)
                    here = comparisons(f.node, ctx)
                    res = match_link(link, here, ctx)
                status = None
                if res is not None and res[0] == "ok":
                    status = "ok"
                elif res is None:
                    # not in the function at all: made by another function of the module (helper refactor)?
                    for g in m.functions.values():
                        if g is f:
                            continue
                        gctx = _Ctx(g.node)
                        # a helper the comparison was moved into keeps the row's variable names (no renaming here: with free
                        # renaming any `x > 0` of the module would stand for the row)
                        r2 = match_link(link, comparisons(g.node, gctx), gctx, allow_rename=False)
                        if r2 is not None and r2[0] == "ok":
                            status = "ok (made in %s)" % g.dqual
                            break
                if status is None:
                    if res is not None:
                        status = "moved"
                        c = res[1]
                        out.report(r["file"], r["function"], "boundary %s" % linktxt, c[1].lineno, "%s tests `%s` where the boundary is `%s` (%s): same quantities, different cut [%s, expected %s]" % (r["function"], c[2], r["expect"], r["reason"], _show(c[0]), _show(res[2])))
                    else:
                        status = "absent"
                        # evidence that the comparison is still made here, only differently: some comparison of the function
                        # mentions one of the row's attributes / quantities.  With none, the test lives somewhere this rule does
                        # not follow (a generator, another class): undecided, not a violation
                        rowat = {a for a in _attrs_of(link[0]) + _attrs_of(link[2]) if a not in ("self",)}
                        related = [c for c in ast.walk(f.node) if isinstance(c, ast.Compare) and rowat & set(_attrs_of(c))] if f is not None else []
                        # values that reach the function through a helper written after the review (a generator of candidates, ...)
                        # cannot be followed: then nothing is decided
                        from ..inline import _known
                        indirect = False
                        if f is not None:
                            for c_ in ast.walk(f.node):
                                if isinstance(c_, ast.Call):
                                    nm = c_.func.attr if isinstance(c_.func, ast.Attribute) and isinstance(c_.func.value, ast.Name) and c_.func.value.id in ("self", "cls") else c_.func.id if isinstance(c_.func, ast.Name) else None
                                    if nm is None:
                                        continue
                                    cand = [g for g in m.functions.values() if g.name == nm and (g.cls is f.cls or g.cls is None)]
                                    if cand and not any((g.mod.rel, g.dqual) in _known() for g in cand):
                                        indirect = True
                        if f is not None and (not related or indirect):
                            out.inst(key + "::%d" % k, {"function": r["function"], "expect": linktxt, "status": "not found, no related comparison", "reason": r["reason"]}, nontrivial=False)
                            out.undecide(r["file"], r["function"], "boundary %s" % linktxt, "no comparison of the function mentions any quantity of the row: the test is made where this rule does not follow")
                            continue
                        near = ""
                        wa = set(_attrs_of(link[0]) + _attrs_of(link[2]))
                        scored = [(len(wa & set(_attrs_of(c[1]))), c) for c in here]
                        scored = [x for x in scored if x[0]]
                        if scored:
                            near = "; nearest comparison there: `%s`" % max(scored, key=lambda x: x[0])[1][2]
                        out.report(r["file"], r["function"], "boundary %s" % linktxt, f.node.lineno if f is not None else 0, "%s no longer makes the comparison `%s` (%s), and no other function of the module does%s" % (r["function"], linktxt, r["reason"], near))
                out.inst(key + "::%d" % k, {"function": r["function"], "expect": linktxt, "status": status, "reason": r["reason"]})
        out.stats["rows"] = len(rows)
        return out

    rule.__name__ = "r_boundary_%s" % pid
    return rule


def _attrs_of(e):
    return [n.attr for n in ast.walk(e) if isinstance(n, ast.Attribute)] + [n.id for n in ast.walk(e) if isinstance(n, ast.Name)]
