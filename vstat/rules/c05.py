"""C05: a decoded instruction is determined by the bytes it consumes.

R-PAIR   consumed => recorded: every consuming read of the variable tail in a setup function or tail
         helper is followed, on every normal path to return, by `obj.bytes += ...` built from that piece.
"""
import ast

from ..cfg import CFG, _walk_no_nested
from ..harness import RuleOut
from ..index import AnalysisError, norm
from ..callgraph import CallGraph
from .spec import specs

LEB_READERS = {"read_leb128", "read_uleb128", "read_sleb128"}


def names_in(node):
    return {n.id for n in _walk_no_nested(node) if isinstance(n, ast.Name)}


def tail_functions(repo):
    """{id(FuncInfo): (FuncInfo, set of tail parameter names)} for hooks with a (*) argument and helpers
    that receive a tail variable."""
    decls, _ = specs(repo)
    cg = CallGraph(repo)
    work = {}
    for s in decls:
        if s.model is None or s.model.star is None:
            continue
        d = s.model.directives[s.model.star]
        if d.opt == ".":
            continue
        ent = work.setdefault(id(s.func), (s.func, set()))
        ent[1].add(d.sym)
    # propagate to helpers: call f(..., tailvar, ...) where f resolves to an arch function
    todo = list(work.values())
    while todo:
        f, tails = todo.pop()
        tv = tail_vars(f.node, tails)
        for c in ast.walk(f.node):
            if not isinstance(c, ast.Call) or not isinstance(c.func, ast.Name):
                continue
            t = cg.resolve_name(f.mod, c.func.id)
            if t is None or isinstance(t, tuple) or hasattr(t, "methods"):
                continue
            if not t.mod.name.startswith("amoco.arch."):
                continue
            params = [x.arg for x in t.node.args.posonlyargs + t.node.args.args]
            for k, a in enumerate(c.args):
                if isinstance(a, ast.Name) and a.id in tv and k < len(params):
                    ent = work.get(id(t))
                    if ent is None:
                        ent = (t, set())
                        work[id(t)] = ent
                    if params[k] not in ent[1]:
                        ent[1].add(params[k])
                        todo.append(ent)
            for kw in c.keywords:
                if kw.arg and isinstance(kw.value, ast.Name) and kw.value.id in tv and kw.arg in params:
                    ent = work.setdefault(id(t), (t, set()))
                    if kw.arg not in ent[1]:
                        ent[1].add(kw.arg)
                        todo.append(ent)
    return work


def _is_open_slice(sl, tvars):
    """slice reaching the end of the tail: T[a:], T[a:T.size], T[a:len(T)]"""
    if not isinstance(sl, ast.Slice):
        return False
    if sl.upper is None:
        return True
    u = norm(sl.upper)
    return any(u in ("%s.size" % t, "len(%s)" % t) for t in tvars)


def tail_vars(fnode, tails):
    """names that denote (a continuation of) the tail: params + `t = pack(t)` + `t = t[a:]`-style rebinding
    + second element of a `v, t = t[a:b], t[b:]` tuple assignment + `op, t = helper(obj, ..., t)`."""
    tv = set(tails)
    changed = True
    while changed:
        changed = False
        for n in ast.walk(fnode):
            if not isinstance(n, ast.Assign) or len(n.targets) != 1:
                continue
            t, v = n.targets[0], n.value
            pairs = []
            if isinstance(t, ast.Name):
                pairs.append((t, v))
            elif isinstance(t, ast.Tuple) and isinstance(v, ast.Tuple) and len(t.elts) == len(v.elts):
                pairs += list(zip(t.elts, v.elts))
            elif isinstance(t, ast.Tuple) and isinstance(v, ast.Call):
                # op, data = helper(obj, ..., data)  -> last target is the remaining tail when a tail var is passed
                if any(isinstance(a, ast.Name) and a.id in tv for a in v.args) and isinstance(t.elts[-1], ast.Name):
                    if not (isinstance(v.func, ast.Name) and v.func.id in LEB_READERS):
                        if t.elts[-1].id not in tv:
                            tv.add(t.elts[-1].id)
                            changed = True
            for tt, vv in pairs:
                if not isinstance(tt, ast.Name):
                    continue
                is_tail = False
                if isinstance(vv, ast.Call) and isinstance(vv.func, ast.Name) and vv.func.id in ("pack", "bytes") and vv.args and isinstance(vv.args[0], ast.Name) and vv.args[0].id in tv:
                    is_tail = True
                elif isinstance(vv, ast.Subscript) and isinstance(vv.value, ast.Name) and vv.value.id in tv and _is_open_slice(vv.slice, tv):
                    is_tail = True
                elif isinstance(vv, ast.Name) and vv.id in tv:
                    is_tail = True
                if is_tail and tt.id not in tv:
                    tv.add(tt.id)
                    changed = True
    return tv


class Read:
    def __init__(self, stmt, kind, var, text):
        self.stmt = stmt
        self.kind = kind  # 'slice' | 'leb'
        self.var = var  # name holding the piece (slice) or the consumed length (leb)
        self.text = text


def consuming_reads(fnode, tv):
    reads = []
    for n in ast.walk(fnode):
        if not isinstance(n, ast.Assign) or len(n.targets) != 1:
            continue
        t, v = n.targets[0], n.value
        pairs = []
        if isinstance(t, (ast.Name, ast.Attribute)):
            pairs.append((t, v))
        elif isinstance(t, ast.Tuple) and isinstance(v, ast.Tuple) and len(t.elts) == len(v.elts):
            pairs += list(zip(t.elts, v.elts))
        elif isinstance(t, ast.Tuple) and isinstance(v, ast.Call) and isinstance(v.func, ast.Name) and v.func.id in LEB_READERS:
            if v.args and isinstance(v.args[0], ast.Name) and v.args[0].id in tv and len(t.elts) == 2 and isinstance(t.elts[1], ast.Name):
                reads.append(Read(n, "leb", t.elts[1].id, norm(n)))
            elif v.args and isinstance(v.args[0], ast.Subscript) and isinstance(v.args[0].value, ast.Name) and v.args[0].value.id in tv and len(t.elts) == 2 and isinstance(t.elts[1], ast.Name):
                reads.append(Read(n, "leb", t.elts[1].id, norm(n)))
            continue
        for tt, vv in pairs:
            if isinstance(vv, ast.Subscript) and isinstance(vv.value, ast.Name) and vv.value.id in tv and isinstance(vv.slice, ast.Slice) and not _is_open_slice(vv.slice, tv):
                if isinstance(tt, ast.Name) and tt.id not in tv:
                    reads.append(Read(n, "slice", tt.id, norm(n)))
                elif isinstance(tt, ast.Name) and tt.id in tv:
                    # `data = data[0:8]` : narrowing the tail itself -- treated as a consuming read into the same name
                    reads.append(Read(n, "slice", tt.id, norm(n)))
    return reads


def is_record(stmt, objnames):
    """`obj.bytes += EXPR` -> EXPR, else None"""
    if isinstance(stmt, ast.AugAssign) and isinstance(stmt.op, ast.Add) and isinstance(stmt.target, ast.Attribute) and stmt.target.attr == "bytes":
        if isinstance(stmt.target.value, ast.Name) and stmt.target.value.id in objnames:
            return stmt.value
    if isinstance(stmt, ast.Assign) and len(stmt.targets) == 1 and isinstance(stmt.targets[0], ast.Attribute) and stmt.targets[0].attr == "bytes":
        t = stmt.targets[0]
        if isinstance(t.value, ast.Name) and t.value.id in objnames and isinstance(stmt.value, ast.BinOp) and isinstance(stmt.value.op, ast.Add) and norm(stmt.value.left) == norm(t):
            return stmt.value.right
    return None


def derived_from(fnode, var):
    """names assigned from expressions mentioning var (one function, flow-insensitive): e.g. d8 = d.signextend()"""
    s = {var}
    return s


def r_pair(repo, tier):
    out = RuleOut(
        "R-PAIR",
        "in every setup function / helper that receives the variable tail, each consuming read of the tail "
        "(bounded slice `v = data[a:b]`, or `val, n = read_*leb128(data, ...)`) is followed on every normal path to a "
        "return by `obj.bytes += ...` whose operand is built from that piece (pack(v) / data[..n..]); consumed bytes are recorded bytes",
    )
    tfs = tail_functions(repo)
    n_read_f = n_deleg = n_none = 0
    for fid, (f, tails) in sorted(tfs.items(), key=lambda kv: kv[1][0].key):
        fn = f.node
        params = f.params()
        objnames = {p for p in params[:1]} | {"obj"}
        tv = tail_vars(fn, tails)
        reads = consuming_reads(fn, tv)
        calls_helper = any(
            isinstance(c, ast.Call) and isinstance(c.func, ast.Name) and any(isinstance(a, ast.Name) and a.id in tv for a in c.args) and c.func.id not in LEB_READERS and c.func.id not in ("pack", "len", "bytes")
            for c in ast.walk(fn)
        )
        if not reads:
            if calls_helper:
                n_deleg += 1
            else:
                n_none += 1
            out.inst(f.key, None, nontrivial=False)
            continue
        n_read_f += 1
        cfg = CFG(fn)
        records = []  # (node id, expr)
        for n in cfg.nodes:
            if n.kind == "stmt":
                e = is_record(n.ast, objnames)
                if e is not None:
                    records.append((n.id, e))
        for r in reads:
            node = cfg.stmt_node.get(id(r.stmt))
            if node is None:
                continue
            key = "%s::%s" % (f.key, r.text[:80])
            # pure look-ahead: the piece is never used except in tests/comparisons
            if r.kind == "slice":
                match = [nid for nid, e in records if any(isinstance(c, ast.Call) and norm(c.func) == "pack" and r.var in names_in(c) for c in ast.walk(e)) or r.var in names_in(e)]
            else:
                match = [nid for nid, e in records if r.var in names_in(e)]
            uses = [x for x in ast.walk(fn) if isinstance(x, ast.Name) and x.id == r.var and isinstance(x.ctx, ast.Load)]
            path = cfg.some_path(node, {cfg.exit.id}, avoid=set(match) - {node.id}, follow=lambda a, b, lab: lab != "exc")
            out.inst(key, {"function": f.key, "read": r.text[:90], "kind": r.kind, "records": [norm(cfg.nodes[i].ast)[:70] for i in match], "recorded_on_all_paths": path is None})
            if path is None:
                continue
            if not uses:
                out.undecide(f.file, f.dqual, r.text, "piece is never used (dead read)")
                continue
            if any(isinstance(x, ast.Return) and x.value is not None and r.var in names_in(x.value) for x in ast.walk(fn)):
                out.undecide(f.file, f.dqual, r.text, "the piece is returned to the caller, which records it (helper of a setup function)")
                continue
            if _lookahead_only(fn, r.var):
                out.undecide(f.file, f.dqual, r.text, "look-ahead: the piece is only inspected in tests, the tail is not advanced past it")
                continue
            out.report(
                f.file,
                f.dqual,
                "read %s" % r.text[:120],
                r.stmt.lineno,
                "bytes read from the variable tail into %r reach a return without being appended to obj.bytes (path %s): the instruction consumes bytes that its length does not account for" % (r.var, cfg.describe_path(path)),
            )
    # raw: what is recorded is the consumed piece itself, not a value computed from it
    for fid, (f, tails) in sorted(tfs.items(), key=lambda kv: kv[1][0].key):
        fn = f.node
        objnames = set(f.params()[:1]) | {"obj"}
        tv = tail_vars(fn, tails)
        for st in ast.walk(fn):
            e = is_record(st, objnames)
            if e is None:
                continue
            for c in ast.walk(e):
                if isinstance(c, ast.Call) and norm(c.func) == "pack" and c.args and isinstance(c.args[0], ast.Name):
                    v = c.args[0].id
                    for a in ast.walk(fn):
                        if isinstance(a, ast.Assign) and any(isinstance(t, ast.Name) and t.id == v for t in a.targets) and not isinstance(a.value, ast.Tuple):
                            slices = [x for x in ast.walk(a.value) if isinstance(x, ast.Subscript) and isinstance(x.value, ast.Name) and x.value.id in tv and isinstance(x.slice, ast.Slice)]
                            if slices and not (isinstance(a.value, ast.Subscript) and a.value in slices):
                                out.inst("%s::raw %s" % (f.key, norm(a)[:60]), {"function": f.key, "recorded": norm(c), "defined_as": norm(a)[:80]})
                                out.report(f.file, f.dqual, "recorded %s is not raw: %s" % (v, norm(a)[:70]), a.lineno, "`%s` appends `%s` to the instruction bytes, but %s is `%s`, a value computed from the consumed piece %s: the recorded bytes differ from the input bytes whenever the computation changes them" % (norm(st)[:60], norm(c), v, norm(a.value)[:60], norm(slices[0])))
    # order: pieces that are adjacent in the tail (v starts where u ends) are recorded in that order
    n_order = 0
    for fid, (f, tails) in sorted(tfs.items(), key=lambda kv: kv[1][0].key):
        fn = f.node
        objnames = set(f.params()[:1]) | {"obj"}
        tv = tail_vars(fn, tails)
        sl = {}
        multi = set()
        for r in consuming_reads(fn, tv):
            if r.kind != "slice":
                continue
            v = r.stmt.value
            tgt = r.stmt.targets[0]
            cands = list(zip(tgt.elts, v.elts)) if isinstance(tgt, ast.Tuple) and isinstance(v, ast.Tuple) else [(tgt, v)]
            for tt, vv in cands:
                if isinstance(tt, ast.Name) and tt.id == r.var and isinstance(vv, ast.Subscript) and isinstance(vv.slice, ast.Slice):
                    if r.var in sl:
                        multi.add(r.var)
                    sl[r.var] = (norm(vv.value), norm(vv.slice.lower) if vv.slice.lower is not None else "0", norm(vv.slice.upper) if vv.slice.upper is not None else None)
        for k in multi:
            sl.pop(k, None)
        if len(sl) < 2:
            continue
        # recorded order: (statement line, position inside the + chain)
        order = []
        for st in ast.walk(fn):
            e = is_record(st, objnames)
            if e is None:
                continue
            pos = 0
            for c in ast.walk(e):
                pass
            def chain(x):
                if isinstance(x, ast.BinOp) and isinstance(x.op, ast.Add):
                    return chain(x.left) + chain(x.right)
                return [x]
            for k, part in enumerate(chain(e)):
                vs = [nm for nm in names_in(part) if nm in sl]
                if len(vs) == 1:
                    order.append((st.lineno, k, vs[0], st))
        order.sort(key=lambda t: (t[0], t[1]))
        seq = [t[2] for t in order]
        for u, (tu, lu, uu) in sl.items():
            for v, (tv_, lv, uv) in sl.items():
                if u == v or tu != tv_ or uu is None or uu != lv:
                    continue
                if seq.count(u) != 1 or seq.count(v) != 1:
                    continue
                n_order += 1
                iu, iv = seq.index(u), seq.index(v)
                out.inst("%s::order %s<%s" % (f.key, u, v), {"function": f.key, "first": "%s = %s[%s:%s]" % (u, tu, lu, uu), "then": "%s = %s[%s:%s]" % (v, tv_, lv, uv), "recorded_order": seq})
                if iu > iv:
                    st = order[iv][3]
                    out.report(f.file, f.dqual, "record order %s before %s" % (v, u), st.lineno, "%s = %s[%s:%s] precedes %s = %s[%s:%s] in the input but is appended to obj.bytes after it: the recorded bytes are a permutation, not a prefix, of the input" % (u, tu, lu, uu, v, tv_, lv, uv))
    out.stats["ordered_pairs"] = n_order
    out.stats.update({"tail_functions": len(tfs), "reading": n_read_f, "delegating": n_deleg, "untouched": n_none})
    if len(tfs) < 200 or n_read_f < 60:
        raise AnalysisError("R-PAIR: %d tail-taking functions / %d reading (>=200 / >=60 expected)" % (len(tfs), n_read_f))
    return out


def _lookahead_only(fn, var):
    """var is used only inside If/While tests or comparisons (never flows into a call argument, attribute store, operand list)"""
    parents = {}
    for p in ast.walk(fn):
        for c in ast.iter_child_nodes(p):
            parents[c] = p
    for x in ast.walk(fn):
        if isinstance(x, ast.Name) and x.id == var and isinstance(x.ctx, ast.Load):
            c = x
            in_test = False
            while c in parents:
                p = parents[c]
                if isinstance(p, (ast.If, ast.While)) and c is p.test:
                    in_test = True
                    break
                if isinstance(p, ast.stmt):
                    break
                c = p
            if not in_test:
                return False
    return True


def r_tailchk(repo, tier):
    out = RuleOut(
        "R-TAILCHK",
        "every bounded slice `T[a:b]` of the variable tail is dominated by a length test of that same tail against that "
        "same bound (`if T.size < b: raise ...`); otherwise a buffer that ends before the piece still decodes (Bits slicing "
        "silently yields fewer bits), and the result depends on what follows the consumed bytes",
    )
    tfs = tail_functions(repo)
    nsl = 0
    for fid, (f, tails) in sorted(tfs.items(), key=lambda kv: kv[1][0].key):
        tv = tail_vars(f.node, tails)
        if not any(isinstance(x, ast.Subscript) and isinstance(x.value, ast.Name) and x.value.id in tv and isinstance(x.slice, ast.Slice) and not _is_open_slice(x.slice, tv) for x in ast.walk(f.node)):
            continue
        cfg = CFG(f.node)
        # guard tests: If whose body raises (on every path) and whose test compares T.size / len(T) with a bound
        guards = []  # (test node id, tailvar, bound text)
        for n in cfg.nodes:
            if n.kind == "test" and isinstance(n.ast, ast.If) and n.ast.body and isinstance(n.ast.body[-1], ast.Raise):
                import copy as _copy
                from ..canon import _NormCmp
                # `not T.size >= b` and `b > T.size` are the same test as `T.size < b`
                for c in ast.walk(_NormCmp().visit(_copy.deepcopy(n.ast.test))):
                    if isinstance(c, ast.Compare) and len(c.ops) == 1 and isinstance(c.ops[0], ast.Lt):
                        l = norm(c.left)
                        for t in tv:
                            if l in ("%s.size" % t, "len(%s)" % t):
                                guards.append((n.id, t, norm(c.comparators[0])))
        # every bounded slice of a tail variable, in any expression context (assigned, passed to pack(), to cst() ...)
        sites = []
        for nd in cfg.nodes:
            if nd.ast is None or nd.kind not in ("stmt", "test", "return", "assert"):
                continue
            tgt = nd.ast.test if nd.kind == "test" else nd.ast
            for x in _walk_no_nested(tgt):
                if isinstance(x, ast.Subscript) and isinstance(x.value, ast.Name) and x.value.id in tv and isinstance(x.slice, ast.Slice) and not _is_open_slice(x.slice, tv) and isinstance(x.ctx, ast.Load):
                    sites.append((nd, x))
        # tails converted to a byte string (data = pack(data)) are consumed through LEB128 readers that return the
        # number of bytes they used: slices bounded by that count cannot over-read; they are outside this rule
        bytes_tails = set()
        for a0 in ast.walk(f.node):
            if isinstance(a0, ast.Assign) and isinstance(a0.targets[0], ast.Name) and isinstance(a0.value, ast.Call) and isinstance(a0.value.func, ast.Name) and a0.value.func.id in ("pack", "bytes"):
                bytes_tails.add(a0.targets[0].id)
        seen_sites = set()
        for node, x in sites:
            if x.value.id in bytes_tails:
                out.undecide(f.file, f.dqual, norm(x), "byte-string tail (LEB128 idiom): slice bounds come from the reader's byte count")
                continue
            if True:
                if True:
                    k0 = (node.id, norm(x))
                    if k0 in seen_sites:
                        continue
                    seen_sites.add(k0)
                    nsl += 1
                    up = norm(x.slice.upper)
                    lo = norm(x.slice.lower) if x.slice.lower is not None else "0"
                    t = x.value.id
                    width = up if lo == "0" else None
                    # a guard on t with bound >= this slice's upper end (textually equal, or `up` is a prefix sum of the bound: a+b covers a)
                    good = [g for g in guards if g[1] == t and (g[2] == up or g[2].startswith(up + " +") or (width and g[2] == width))]
                    # must dominate: every path from ENTRY to the read passes the guard => read unreachable from entry avoiding guards
                    dominated = False
                    if good and node is not None:
                        reach = cfg.reachable_from(cfg.entry, avoid={g[0] for g in good})
                        dominated = node.id not in reach
                    key = "%s::%s" % (f.key, norm(x))
                    out.inst(key, {"function": f.key, "slice": norm(x), "guards": ["%s.size < %s" % (g[1], g[2]) for g in good], "dominated": dominated})
                    if not dominated:
                        other = ["%s.size < %s" % (g[1], g[2]) for g in guards if g[1] == t]
                        out.report(
                            f.file,
                            f.dqual,
                            "slice %s" % norm(x),
                            x.lineno,
                            "the tail slice %s is not dominated by a length test `%s.size < %s` that raises (tests on this tail in the function: %s): truncated input still decodes and the result depends on the bytes that follow" % (norm(x), t, up, other or "none"),
                        )
    out.stats["slices"] = nsl
    if nsl < 55:
        raise AnalysisError("R-TAILCHK: only %d bounded tail slices found (>=55 expected)" % nsl)
    return out


def r_overguard(repo, tier):
    """converse of R-TAILCHK: a raising length requirement on the tail is only made on paths that consume the tail"""
    out = RuleOut(
        "R-OVERGUARD",
        "a setup function / helper that rejects the instruction when the variable tail is shorter than some bound "
        "(`if T.size < b: raise InstructionError`) reads the tail on every normal path from that test to a return: "
        "a path that passes the test and returns without touching the tail demands bytes the instruction does not consume, "
        "so the instruction no longer decodes from exactly its own bytes (nor at the end of a buffer)",
    )
    tfs = tail_functions(repo)
    n = 0
    for fid, (f, tails) in sorted(tfs.items(), key=lambda kv: kv[1][0].key):
        tv = tail_vars(f.node, tails)
        guards = []
        for x in ast.walk(f.node):
            if isinstance(x, ast.If) and x.body and isinstance(x.body[-1], ast.Raise) and not x.orelse:
                for c in ast.walk(x.test):
                    if isinstance(c, ast.Compare) and len(c.ops) == 1 and isinstance(c.ops[0], ast.Lt) and any(norm(c.left) in ("%s.size" % t, "len(%s)" % t) for t in tv):
                        guards.append(x)
        if not guards:
            continue
        cfg = CFG(f.node, may_raise=lambda x: False)
        # nodes that read the tail: a slice / subscript of a tail variable, or a call that receives it (helper consumes)
        readers = set()
        for nd in cfg.nodes:
            if nd.ast is None:
                continue
            tgt = nd.ast.test if nd.kind == "test" and hasattr(nd.ast, "test") else nd.ast
            if nd.kind in ("for", "while", "with", "try"):
                continue
            for x in _walk_no_nested(tgt) if not isinstance(tgt, (ast.If, ast.While, ast.For)) else _walk_no_nested(getattr(tgt, "test", tgt)):
                if isinstance(x, ast.Subscript) and isinstance(x.value, ast.Name) and x.value.id in tv:
                    readers.add(nd.id)
                if isinstance(x, ast.Call) and not (isinstance(x.func, ast.Name) and x.func.id == "len") and any(isinstance(a, ast.Name) and a.id in tv for a in x.args):
                    readers.add(nd.id)
        for g in guards:
            nd = cfg.stmt_node.get(id(g))
            if nd is None:
                continue
            n += 1
            starts = [m for m, lab in cfg.succ[nd.id] if lab == "f"]
            path = None
            for st in starts:
                if st.id in readers:
                    continue
                if st.id == cfg.exit.id:
                    path = [(nd, "f"), (st, None)]
                    break
                path = cfg.some_path(st, {cfg.exit.id}, avoid=readers, follow=lambda a, b, lab: lab != "exc")
                if path is not None:
                    break
            out.inst("%s::%s@%d" % (f.key, norm(g.test), g.lineno), {"function": f.dqual, "requirement": norm(g.test), "consumed_on_all_paths": path is None})
            if path is not None:
                out.report(f.file, f.dqual, "requirement %s" % norm(g.test), g.lineno, "%s rejects the instruction unless `not (%s)`, but a path from that test reaches a return without reading the tail (%s): the requirement covers bytes this instruction does not consume" % (f.dqual, norm(g.test), cfg.describe_path(path)))
    out.stats["requirements"] = n
    if n < 40:
        raise AnalysisError("R-OVERGUARD: only %d tail length requirements found" % n)
    return out
