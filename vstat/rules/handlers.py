"""R-HANDLERS: exception handlers of the parsing / decoding / loading layers are not narrowed.

The never-raise clauses (C14, C17, C20), the rollback clause (C05, C11) and the memory layer (C08) rely on try/except
statements that convert or absorb the errors of what they call.  ref/handlers.json records, for every try statement of the
anchored files, the set of exception classes its handlers catch on the reviewed tree.  On every run each recorded try is
found again by function + the set of calls in its body, and its handlers must still catch every recorded class (through
the by-name exception hierarchy: a superclass or a bare except covers it).  Widening is fine; a vanished try statement is
listed as undecided (refactor), a narrowed one is reported.
"""
import ast
import builtins
import json
import os

from .. import VERIF
from ..harness import RuleOut
from ..index import AnalysisError, norm

FILE_PROPS = {
    "amoco/arch/core.py": ["C05", "C11", "C17"],
    "amoco/sa/lsweep.py": ["C17", "C18"],
    "amoco/emu.py": ["C17"],
    "amoco/code.py": ["C18"],
    "amoco/cfg.py": ["C18"],
    "amoco/system/core.py": ["C20", "C15"],
    "amoco/system/elf.py": ["C14", "C20"],
    "amoco/system/pe.py": ["C14", "C20"],
    "amoco/system/macho.py": ["C14", "C20"],
    "amoco/system/coff.py": ["C14", "C20"],
    "amoco/system/memory.py": ["C08"],
    "amoco/system/structs/HEX.py": ["C14", "C20"],
    "amoco/system/structs/SREC.py": ["C14", "C20"],
    "amoco/system/structs/__init__.py": ["C16"],
    "amoco/system/structs/core.py": ["C16", "C20"],
    "amoco/system/structs/fields.py": ["C16", "C20"],
    "amoco/cas/mapper.py": ["C13"],
    "amoco/cas/expressions.py": ["C01"],
}


def _catches(t):
    names = []
    for h in t.handlers:
        # a handler that only cleans up and re-raises the same exception (`...; raise`) does not absorb or convert it
        if h.body and isinstance(h.body[-1], ast.Raise) and h.body[-1].exc is None:
            continue
        if h.type is None:
            names.append("BaseException")
        else:
            for e in h.type.elts if isinstance(h.type, ast.Tuple) else [h.type]:
                nm = e.id if isinstance(e, ast.Name) else e.attr if isinstance(e, ast.Attribute) else norm(e)
                names.append(getattr(getattr(builtins, nm, None), "__name__", nm))
    return sorted(set(names))


def _sig(t):
    calls = set()
    for s in t.body:
        for c in ast.walk(s):
            if isinstance(c, ast.Call):
                f = c.func
                calls.add(f.id if isinstance(f, ast.Name) else f.attr if isinstance(f, ast.Attribute) else "?")
    return sorted(calls)[:8]


def try_rows(f):
    """(signature, ordinal among same-signature tries of the function, caught class names, line) for each try of f (no nested defs)"""
    from ..cfg import _walk_no_nested

    seen = {}
    out = []
    for t in sorted((x for x in _walk_no_nested(f.node) if isinstance(x, ast.Try) and x.handlers), key=lambda x: x.lineno):
        sig = _sig(t)
        k = seen.get(tuple(sig), 0)
        seen[tuple(sig)] = k + 1
        out.append((sig, k, _catches(t), t.lineno))
    return out


def _ancestors(repo, name, seen=None):
    seen = seen or set()
    if name in seen:
        return set()
    seen.add(name)
    out = {name}
    cls = None
    for c in repo.all_classes():
        if c.name == name:
            cls = c
            break
    if cls is not None:
        for b in cls.bases:
            if b:
                out |= _ancestors(repo, b, seen)
    else:
        b = getattr(builtins, name, None)
        if isinstance(b, type) and issubclass(b, BaseException):
            out |= {k.__name__ for k in b.__mro__ if k is not object}
    return out


def r_handlers(pid):
    def rule(repo, tier):
        out = RuleOut(
            "R-HANDLERS",
            "every try statement recorded in ref/handlers.json for this property's files (function + calls in the try body) still "
            "catches each exception class it caught on the reviewed tree, directly or through a superclass / bare except: handlers "
            "of the parsing, decoding, loading and memory layers may be widened, not narrowed",
        )
        with open(os.path.join(VERIF, "ref", "handlers.json")) as fh:
            rows = [r for r in json.load(fh)["rows"] if pid in r["properties"]]
        if not rows:
            raise AnalysisError("R-HANDLERS: no row for %s" % pid)
        cache = {}
        found = 0
        for r in rows:
            m = repo.mod(r["file"])
            f = m.functions.get(r["function"])
            cur = None
            if f is not None:
                if f.key not in cache:
                    cache[f.key] = try_rows(f)
                for sig, k, names, line in cache[f.key]:
                    if sig == r["try_calls"] and k == r["ordinal"]:
                        cur = (names, line)
            key = "%s::%s::try%s#%d" % (r["file"], r["function"], r["try_calls"], r["ordinal"])
            if cur is None:
                # the try statement may have moved with its body into a helper of the same file
                for g in m.functions.values():
                    if g.key not in cache:
                        cache[g.key] = try_rows(g)
                    hits = [(names, line) for sig, k, names, line in cache[g.key] if sig == r["try_calls"] and sig]
                    if len(hits) == 1:
                        cur = hits[0]
                        break
            if cur is None:
                out.inst(key, None, nontrivial=False)
                out.undecide(r["file"], r["function"], "try %s" % r["try_calls"], "recorded try statement not found again (function or try body changed)")
                continue
            found += 1
            names, line = cur
            missing = []
            for e in r["catches"]:
                anc = _ancestors(repo, e)
                if not (anc & set(names)):
                    missing.append(e)
            out.inst(key, {"function": r["function"], "try_calls": r["try_calls"], "recorded": r["catches"], "now": names})
            for e in missing:
                out.report(r["file"], r["function"], "try %s no longer catches %s" % (r["try_calls"][:4], e), line, "the handlers of this try statement caught %s on the reviewed tree and now catch only (%s): an error of that class raised by %s escapes instead of being converted / absorbed" % (e, ", ".join(names), ", ".join(r["try_calls"][:4]) or "the body"))
        out.stats["rows"] = len(rows)
        out.stats["found"] = found
        if found * 10 < len(rows) * 3:
            raise AnalysisError("R-HANDLERS: only %d of %d recorded try statements found again for %s (inventory is stale: tools/mkhandlers.py)" % (found, len(rows), pid))
        return out

    rule.__name__ = "r_handlers_%s" % pid
    return rule
