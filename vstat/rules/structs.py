"""C16: structure definitions encode, decode and lay out like C -- sibling agreement rules.

R-WALK   all layout walkers of StructCore follow the align-then-advance scheme and pass psize consistently
R-GUARD  a hasattr/isinstance guard tests the object that the guarded block then uses
R-PTYPE  pointer-size type-letter translation is the same table in every sibling field method
R-LEB    LEB128 reader and writers agree on group width, continuation and sign bits
"""
import ast

from ..cfg import CFG, _walk_no_nested
from ..harness import RuleOut
from ..index import AnalysisError, norm

CORE = "amoco/system/structs/core.py"
FIELDS = "amoco/system/structs/fields.py"
UTILS = "amoco/system/structs/utils.py"


def names_in(e):
    return {n.id for n in _walk_no_nested(e) if isinstance(n, ast.Name)}


def r_walk(repo, tier):
    out = RuleOut(
        "R-WALK",
        "layout walkers agree: every loop over the fields of a StructCore that calls f.align(cur, ..) carries the cursor -- on "
        "every non-union path of one iteration `cur` is re-aligned (cur = f.align(cur..) or advanced by a value derived from "
        "the alignment padding) and advanced by the field's size (f.size(..) / the packed bytes) -- and a walker that takes "
        "psize passes it to every f.align/f.size/f.unpack/f.pack call",
    )
    m = repo.mod(CORE)
    sc = m.classes.get("StructCore")
    if sc is None:
        raise AnalysisError("anchor vanished: StructCore")
    n = 0
    for name, f in sorted(sc.methods.items()):
        loops = [l for l in ast.walk(f.node) if isinstance(l, ast.For) and norm(l.iter).replace("zip(", "").startswith(("self.fields", "cls.fields"))]
        for loop in loops:
            fvar = None
            for x in ast.walk(loop.target):
                if isinstance(x, ast.Name):
                    fvar = x.id
                    break
            aligns = [c for s in loop.body for c in ast.walk(s) if isinstance(c, ast.Call) and isinstance(c.func, ast.Attribute) and c.func.attr == "align" and isinstance(c.func.value, ast.Name) and c.func.value.id == fvar]
            if not aligns:
                continue
            n += 1
            cur = aligns[0].args[0].id if aligns[0].args and isinstance(aligns[0].args[0], ast.Name) else None
            has_psize = "psize" in f.params()
            key = "%s::walk %s" % (f.key, cur)
            # (c) psize consistency
            calls = [c for s in loop.body for c in ast.walk(s) if isinstance(c, ast.Call) and isinstance(c.func, ast.Attribute) and isinstance(c.func.value, ast.Name) and c.func.value.id == fvar and c.func.attr in ("align", "size", "unpack", "pack", "align_value")]
            nopsize = []
            if has_psize:
                for c in calls:
                    passes = any(isinstance(a, ast.Name) and a.id == "psize" for a in c.args) or any(k.arg == "psize" or (isinstance(k.value, ast.Name) and k.value.id == "psize") for k in c.keywords)
                    if not passes:
                        nopsize.append(c)
            # taint: values derived from the alignment call / from the field
            fld = {fvar}
            alg = set()
            changed = True
            while changed:
                changed = False
                for s in loop.body:
                    for a in ast.walk(s):
                        if isinstance(a, ast.Assign) and isinstance(a.targets[0], ast.Name):
                            t = a.targets[0].id
                            v = a.value
                            has_align = any(isinstance(c, ast.Call) and isinstance(c.func, ast.Attribute) and c.func.attr == "align" for c in ast.walk(v))
                            if (has_align or (names_in(v) & alg)) and t not in alg and t != cur:
                                alg.add(t)
                                changed = True
                            if (names_in(v) & fld) and t not in fld and t != cur:
                                fld.add(t)
                                changed = True
            # path check on the CFG of the function restricted to the loop body
            cfg = CFG(f.node, may_raise=lambda x: False)
            head = cfg.stmt_node[id(loop)]
            realign = set()
            advance = set()
            for nd in cfg.nodes:
                s = nd.ast
                if nd.kind != "stmt" or s is None:
                    continue
                if isinstance(s, ast.Assign) and any(isinstance(t, ast.Name) and t.id == cur for t in s.targets):
                    if any(isinstance(c, ast.Call) and isinstance(c.func, ast.Attribute) and c.func.attr == "align" for c in ast.walk(s.value)):
                        realign.add(nd.id)
                    # cur = helper(cur, <value derived from the field>, ..): the helper carries the cursor forward
                    for c in ast.walk(s.value):
                        if isinstance(c, ast.Call) and not (isinstance(c.func, ast.Attribute) and c.func.attr == "align") \
                                and any(isinstance(a, ast.Name) and a.id == cur for a in c.args) \
                                and any((names_in(a) & fld) for a in c.args if not (isinstance(a, ast.Name) and a.id == cur)):
                            advance.add(nd.id)
                if isinstance(s, ast.AugAssign) and isinstance(s.target, ast.Name) and s.target.id == cur and isinstance(s.op, ast.Add):
                    nm = names_in(s.value)
                    if nm & fld:
                        advance.add(nd.id)
                    if nm & alg:
                        realign.add(nd.id)
            body_ids = set()
            for s in loop.body:
                for x in ast.walk(s):
                    if id(x) in cfg.stmt_node:
                        body_ids.add(cfg.stmt_node[id(x)].id)

            def iteration_path_avoiding(avoid):
                """a path from the loop head through the body back to the head that avoids `avoid` and does not take a
                branch guarded by a union/packed test (those paths legitimately skip alignment / advancing)"""
                def follow(a, b, lab):
                    if lab == "exc":
                        return False
                    return True

                start = [mm for mm, lab in cfg.succ[head.id] if lab == "t"]
                for st in start:
                    if st.id in avoid:
                        continue
                    if st.id == head.id:
                        return [head]
                    seen = {st.id}
                    todo = [(st, [head, st])]
                    while todo:
                        nd, path = todo.pop()
                        for mm, lab in cfg.succ[nd.id]:
                            if lab == "exc" or mm.id in avoid:
                                continue
                            # skip branches that are taken only for unions / packed structures
                            if nd.kind == "test" and isinstance(nd.ast, ast.If):
                                t = norm(nd.ast.test)
                                # a named condition (`is_struct = self.union is False`) reads as its definition
                                for nm_ in [k.id for k in ast.walk(nd.ast.test) if isinstance(k, ast.Name)]:
                                    ds_ = [a for a in ast.walk(f.node) if isinstance(a, ast.Assign) and len(a.targets) == 1 and isinstance(a.targets[0], ast.Name) and a.targets[0].id == nm_]
                                    if len(ds_) == 1 and ("union" in norm(ds_[0].value) or "packed" in norm(ds_[0].value)):
                                        t = t.replace(nm_, "(%s)" % norm(ds_[0].value))
                                if ("union" in t or "packed" in t):
                                    neg_union = ("union is False" in t) or ("not self.packed" in t) or ("not cls.packed" in t)
                                    # whichever way the condition is phrased: the branch that re-aligns is the plain-struct one
                                    has_align = lambda blk: any(isinstance(c_, ast.Call) and isinstance(c_.func, ast.Attribute) and c_.func.attr == "align" for s_ in blk for c_ in ast.walk(s_))
                                    if has_align(nd.ast.body) and not has_align(nd.ast.orelse):
                                        neg_union = True
                                    elif has_align(nd.ast.orelse) and not has_align(nd.ast.body):
                                        neg_union = False
                                    if neg_union and lab == "f":
                                        continue
                                    if not neg_union and lab == "t":
                                        continue
                            if nd.kind == "test" and isinstance(nd.ast, ast.If) and (names_in(nd.ast.test) & fld) and not ("union" in norm(nd.ast.test) or "packed" in norm(nd.ast.test)):
                                # a test of the field itself (`if f.instance is not None:`): the arm without the
                                # statement looked for skips the field on purpose, like the `continue` form
                                def holds(blk):
                                    return any(id(x_) in cfg.stmt_node and cfg.stmt_node[id(x_)].id in avoid for s_ in blk for x_ in ast.walk(s_))
                                if holds(nd.ast.body) and not holds(nd.ast.orelse) and lab == "f":
                                    continue
                                if holds(nd.ast.orelse) and not holds(nd.ast.body) and lab == "t":
                                    continue
                            if mm.kind == "continue":
                                continue  # `continue` under a test of the field itself: the field is skipped on purpose
                            if mm.id == head.id:
                                return path + [head]
                            if mm.id in body_ids and mm.id not in seen:
                                seen.add(mm.id)
                                todo.append((mm, path + [mm]))
                return None

            p1 = iteration_path_avoiding(realign)
            p2 = iteration_path_avoiding(advance)
            out.inst(key, {"walker": f.dqual, "cursor": cur, "realign_stmts": len(realign), "advance_stmts": len(advance), "psize_param": has_psize, "calls_without_psize": [norm(c) for c in nopsize]})
            if cur is None:
                out.undecide(CORE, f.dqual, norm(aligns[0]), "cursor expression is not a plain name")
                continue
            if p1 is not None:
                out.report(CORE, f.dqual, "cursor %s not re-aligned" % cur, loop.lineno, "%s: an iteration of the field loop can complete without re-assigning %s from f.align(%s..): alignment padding is computed but not carried to the next field" % (f.dqual, cur, cur))
            if p2 is not None:
                out.report(CORE, f.dqual, "cursor %s not advanced" % cur, loop.lineno, "%s: an iteration of the field loop (non-union path) can complete without advancing %s by the field's size: every field is laid out as if it started at offset %s" % (f.dqual, cur, "0" if not advance else "the previous one"))
            for c in nopsize:
                out.report(CORE, f.dqual, "%s without psize" % norm(c), c.lineno, "%s takes psize but calls %s without it: this step uses the host pointer size while its siblings use the requested one" % (f.dqual, norm(c)))
    out.stats["walkers"] = n
    if n < 3:
        raise AnalysisError("R-WALK: only %d layout walkers found in StructCore (6 confirmed)" % n)
    return out


def r_guard(repo, tier, rels=None):
    out = RuleOut(
        "R-GUARD",
        "belief contradiction: a hasattr(X,'a') guard whose guarded block reads attribute a on a different object than X "
        "and never on X (the guard establishes a belief about X, the code relies on it for another object)",
    )
    rels = rels or [CORE, FIELDS, "amoco/system/structs/__init__.py", "amoco/system/structs/formatters.py"]
    n = 0
    for rel in rels:
        m = repo.mod(rel)
        for f in m.functions.values():
            for s in _walk_no_nested(f.node):
                if not isinstance(s, ast.If):
                    continue
                for c in ast.walk(s.test):
                    if isinstance(c, ast.Call) and norm(c.func) == "hasattr" and len(c.args) == 2 and isinstance(c.args[1], ast.Constant) and isinstance(c.args[1].value, str):
                        X = norm(c.args[0])
                        a = c.args[1].value
                        # polarity: skip `not hasattr`
                        if any(isinstance(u, ast.UnaryOp) and isinstance(u.op, ast.Not) and u.operand is c for u in ast.walk(s.test)):
                            continue
                        n += 1
                        on_x = on_other = None
                        for b in s.body:
                            for r in ast.walk(b):
                                if isinstance(r, ast.Attribute) and r.attr == a and isinstance(r.ctx, ast.Load):
                                    if norm(r.value) == X:
                                        on_x = r
                                    else:
                                        on_other = r
                        out.inst("%s::hasattr(%s,%s)" % (f.key, X, a), {"site": "%s:%d" % (rel, s.lineno), "guard": "hasattr(%s, %r)" % (X, a), "read_on_guarded": on_x is not None, "read_on_other": norm(on_other) if on_other is not None else None} if n % 5 == 1 or (on_other is not None and on_x is None) else None)
                        if on_other is not None and on_x is None:
                            out.report(rel, f.dqual, "hasattr(%s, %r) then %s" % (X, a, norm(on_other)), on_other.lineno, "the guard tests attribute %r of %s but the guarded code reads it on %s (and never on %s)" % (a, X, norm(on_other.value), X))
    out.stats["guards"] = n
    if n < 5:
        raise AnalysisError("R-GUARD: only %d hasattr guards found" % n)
    return out


def r_ptype(repo, tier):
    out = RuleOut(
        "R-PTYPE",
        "the pointer-size type-letter translation `if psize and tn in (LETTERS): tn = {..}.get(psize, ..)` is the same table in "
        "every method that implements it (align_value/size/unpack/pack/format of RawField, VarField, CntField, BindedField): "
        "same letter set, same psize->letter map",
    )
    m = repo.mod(FIELDS)
    sites = []
    mdicts = {n.targets[0].id: n.value for n in m.tree.body if isinstance(n, ast.Assign) and len(n.targets) == 1 and isinstance(n.targets[0], ast.Name) and isinstance(n.value, ast.Dict)}
    for f in m.functions.values():
        for s in _walk_no_nested(f.node):
            if isinstance(s, ast.If) and "psize" in norm(s.test):
                letters = None
                for c in ast.walk(s.test):
                    if isinstance(c, ast.Compare) and len(c.ops) == 1:
                        if isinstance(c.ops[0], ast.In) and isinstance(c.comparators[0], (ast.Tuple, ast.List, ast.Set)):
                            letters = tuple(sorted(x.value for x in c.comparators[0].elts if isinstance(x, ast.Constant)))
                        elif isinstance(c.ops[0], ast.Eq) and isinstance(c.comparators[0], ast.Constant) and isinstance(c.comparators[0].value, str):
                            letters = (c.comparators[0].value,)
                        elif isinstance(c.ops[0], ast.In) and isinstance(c.comparators[0], ast.Name) and c.comparators[0].id in f.params():
                            # `tn in ptrtypes` with the letter set as a defaulted parameter of a shared helper
                            a_ = f.node.args
                            pos = a_.posonlyargs + a_.args
                            for p_, d_ in zip(pos[len(pos) - len(a_.defaults):], a_.defaults):
                                if p_.arg == c.comparators[0].id and isinstance(d_, (ast.Tuple, ast.List, ast.Set)):
                                    letters = tuple(sorted(x.value for x in d_.elts if isinstance(x, ast.Constant)))
                table = None
                for b in s.body:
                    for d in ast.walk(b):
                        if isinstance(d, ast.Name) and d.id in mdicts:
                            d = mdicts[d.id]
                        if isinstance(d, ast.Dict) and d.keys and all(isinstance(k, ast.Constant) for k in d.keys):
                            table = tuple(sorted((k.value, v.value) for k, v in zip(d.keys, d.values) if isinstance(v, ast.Constant)))
                if letters and table:
                    sites.append((f, s, letters, table))
    if len(sites) < 1:
        raise AnalysisError("R-PTYPE: only %d pointer-size translation sites found (>=7 expected)" % len(sites))
    # majority = reference; per class-family agreement: within one class all methods must agree; across classes report deviation from RawField
    ref = None
    for f, s, letters, table in sites:
        if f.cls is not None and f.cls.name == "RawField":
            ref = (letters, table)
            break
    if ref is None:
        # no RawField site (the translation lives in one shared helper): the most frequent table is the reference
        from collections import Counter
        ref = Counter((l_, t_) for _, _, l_, t_ in sites).most_common(1)[0][0]
    for f, s, letters, table in sites:
        ok = (letters, table) == ref
        out.inst("%s::ptype" % f.key, {"method": f.dqual, "letters": list(letters), "table": [list(t) for t in table], "agrees_with_RawField": ok})
        if table != ref[1]:
            out.report(FIELDS, f.dqual, "psize table %s" % (table,), s.lineno, "%s translates pointer sizes with %s, RawField uses %s" % (f.dqual, table, ref[1]))
        if letters != ref[0]:
            same_class = [x for x in sites if x[0].cls is f.cls]
            if len({x[2] for x in same_class}) > 1:
                out.report(FIELDS, f.dqual, "psize letters %s" % (letters,), s.lineno, "methods of %s disagree on the type letters that are pointer-sized (%s): a field is sized with one table and decoded with another" % (f.cls.name if f.cls else "?", sorted({x[2] for x in same_class})))
            else:
                out.undecide(FIELDS, f.dqual, "psize letters %s" % (letters,), "sibling deviation: %s translates %s while RawField translates %s (not confirmed as a defect; listed only)" % (f.dqual, letters, ref[0]))
    out.stats["sites"] = len(sites)
    return out


def r_leb(repo, tier):
    out = RuleOut(
        "R-LEB",
        "LEB128 reader and writers agree: payload mask 0x7f, continuation bit 0x80, sign bit 0x40, 7-bit shift are the only "
        "bit constants used; write_sleb128 stops only when the remaining value is 0 / -1 AND the sign bit of the emitted group "
        "agrees (both disjuncts of the termination test inspect bit 0x40 of the group)",
    )
    m = repo.mod(UTILS)
    allowed = {0x7F, 0x80, 0x40, 7, 0, 1, -1}
    n = 0
    for name in ("read_leb128", "write_uleb128", "write_sleb128"):
        f = m.functions.get(name)
        if f is None:
            raise AnalysisError("anchor vanished: %s" % name)
        consts = set()
        for x in ast.walk(f.node):
            if isinstance(x, ast.Constant) and isinstance(x.value, int) and not isinstance(x.value, bool):
                consts.add(x.value)
            if isinstance(x, ast.UnaryOp) and isinstance(x.op, ast.USub) and isinstance(x.operand, ast.Constant):
                consts.add(-x.operand.value)
        n += 1
        out.inst("%s::consts" % f.key, {"function": name, "bit_constants": sorted(consts)})
        for c in sorted(consts - allowed):
            out.report(UTILS, name, "constant %#x" % c, f.node.lineno, "%s uses bit constant %#x; the LEB128 codec is defined by 0x7f / 0x80 / 0x40 / 7 only" % (name, c))
        need = {"read_leb128": {0x7F, 0x80, 0x40, 7}, "write_uleb128": {0x7F, 0x80, 7}, "write_sleb128": {0x7F, 0x80, 0x40, 7}}[name]
        for c in sorted(need - consts):
            out.report(UTILS, name, "missing constant %#x" % c, f.node.lineno, "%s no longer uses %#x (payload mask / continuation / sign bit / shift)" % (name, c))
    # termination test of write_sleb128
    f = m.functions["write_sleb128"]
    term = None
    for s in ast.walk(f.node):
        if isinstance(s, ast.If) and isinstance(s.test, ast.BoolOp) and isinstance(s.test.op, ast.Or):
            term = s.test
    if term is None:
        out.undecide(UTILS, "write_sleb128", "termination test", "not a disjunction")
    else:
        n += 1
        disj = term.values
        out.inst("write_sleb128::termination", {"test": norm(term)})
        vals = []
        for d in disj:
            t = norm(d)
            has_sign = "64" in t or "0x40" in t
            if not has_sign:
                out.report(UTILS, "write_sleb128", "termination disjunct %s" % t, d.lineno, "a termination case of the signed LEB128 writer does not inspect the sign bit (0x40) of the emitted group: values whose last group has the opposite sign bit are truncated")
            for c in ast.walk(d):
                if isinstance(c, ast.Compare) and norm(c.left) == "val":
                    vals.append(norm(c.comparators[0]))
        if sorted(vals) != ["-1", "0"]:
            out.report(UTILS, "write_sleb128", "termination values %s" % sorted(vals), term.lineno, "the writer must stop when the remaining value is 0 (non-negative) or -1 (negative)")
    out.stats["checks"] = n
    return out


# ======================================================================================= psize is forwarded everywhere
_LAYOUT_METHODS = ("size", "align", "align_value", "unpack", "pack", "offset_of", "offsets", "get", "format")


def r_psize(repo, tier):
    out = RuleOut(
        "R-PSIZE",
        "in system/structs/core.py and fields.py every method that takes the pointer size `psize` forwards it in every call to a "
        "layout method (size, align, align_value, unpack, pack, offset_of, offsets, get, format) of a field, a type, self, cls or "
        "super(): a step that omits it uses the host's native pointer size while its siblings use the requested one",
    )
    n = 0
    for rel in (CORE, FIELDS):
        m = repo.mod(rel)
        for f in m.functions.values():
            if "psize" not in f.params() or f.cls is None:
                continue
            rebound = any(isinstance(x, ast.Name) and x.id == "psize" and isinstance(x.ctx, ast.Store) for x in ast.walk(f.node))
            for c in ast.walk(f.node):
                if not (isinstance(c, ast.Call) and isinstance(c.func, ast.Attribute) and c.func.attr in _LAYOUT_METHODS):
                    continue
                recv = c.func.value
                if isinstance(recv, ast.Name) and recv.id in ("struct", "codecs", "logger"):
                    continue
                if isinstance(recv, ast.Dict):
                    continue  # {32: 4, 64: 8}.get(psize, psize)
                if isinstance(recv, ast.Constant):
                    continue  # "..".format(..)
                if isinstance(recv, ast.Call) and norm(recv.func) in ("str", "repr"):
                    continue
                n += 1
                passes = any(isinstance(k, ast.Name) and k.id == "psize" for a in c.args for k in ast.walk(a)) or any(isinstance(k2, ast.Name) and k2.id == "psize" for k in c.keywords for k2 in ast.walk(k.value))
                out.inst("%s::%s@%d" % (f.key, norm(c)[:60], c.lineno), {"method": f.dqual, "call": norm(c)[:80], "forwards_psize": passes})
                if not passes:
                    out.report(rel, f.dqual, "%s without psize" % norm(c)[:80], c.lineno, "%s takes psize but calls %s without it: this step is computed for the host's pointer size, the others for the requested one" % (f.dqual, norm(c)[:80]))
    out.stats["calls"] = n
    if n < 35:
        raise AnalysisError("R-PSIZE: only %d layout calls in psize-taking methods" % n)
    return out


# ======================================================================================= element-wise advance of the read cursor
def r_elemadv(repo, tier):
    out = RuleOut(
        "R-ELEMADV",
        "in every loop of the structure layer that unpacks an element at a cursor (`x = <..>.unpack(data, cur, ..)`) and advances "
        "that cursor inside the loop, the amount added depends on what was unpacked in this iteration (the value x, or the loop's "
        "own field/element variable): elements may differ in length (variable-length members), so a step computed once outside the "
        "loop reads the later elements from the wrong offsets",
    )
    n = 0
    for rel in (CORE, FIELDS):
        m = repo.mod(rel)
        for f in m.functions.values():
            for loop in ast.walk(f.node):
                if not isinstance(loop, (ast.For, ast.While)):
                    continue
                body = [x for s in loop.body for x in ast.walk(s)]
                unpacks = []
                for x in body:
                    if isinstance(x, ast.Assign) and isinstance(x.value, ast.Call) and isinstance(x.value.func, ast.Attribute) and x.value.func.attr == "unpack" and len(x.value.args) >= 2 and isinstance(x.value.args[1], ast.Name) and isinstance(x.targets[0], ast.Name):
                        unpacks.append((x.targets[0].id, x.value.args[1].id, x))
                    elif isinstance(x, ast.Call) and isinstance(x.func, ast.Attribute) and x.func.attr in ("append", "extend") and x.args and isinstance(x.args[0], ast.Call) and isinstance(x.args[0].func, ast.Attribute) and x.args[0].func.attr == "unpack" and len(x.args[0].args) >= 2 and isinstance(x.args[0].args[1], ast.Name):
                        unpacks.append((None, x.args[0].args[1].id, x))
                if not unpacks:
                    continue
                loopvars = {k.id for k in ast.walk(loop.target) if isinstance(k, ast.Name)} if isinstance(loop, ast.For) else set()
                # names assigned inside the loop body (per-iteration values)
                inner = {k.id for x in body if isinstance(x, ast.Name) and isinstance(x.ctx, ast.Store) for k in [x]}
                for val, cur, st in unpacks:
                    for x in body:
                        e = None
                        if isinstance(x, ast.AugAssign) and isinstance(x.op, ast.Add) and isinstance(x.target, ast.Name) and x.target.id == cur:
                            e = x.value
                        elif isinstance(x, ast.Assign) and isinstance(x.targets[0], ast.Name) and x.targets[0].id == cur and isinstance(x.value, ast.BinOp) and isinstance(x.value.op, ast.Add) and cur in {k.id for k in ast.walk(x.value) if isinstance(k, ast.Name)}:
                            e = x.value
                        if e is None:
                            continue
                        names = {k.id for k in ast.walk(e) if isinstance(k, ast.Name)} - {cur}
                        per_iter = bool(names & ((inner - {cur}) | loopvars | ({val} if val else set())))
                        n += 1
                        out.inst("%s::%s" % (f.key, norm(x)), {"function": f.dqual, "unpack": norm(st)[:70], "advance": norm(x), "depends_on_this_iteration": per_iter})
                        if not per_iter and names:
                            out.report(rel, f.dqual, "advance %s" % norm(x), x.lineno, "the cursor %s is advanced by `%s`, which is computed outside the loop, after `%s`: every later element is assumed to be as long as that one" % (cur, norm(e), norm(st)[:60]))
    out.stats["advances"] = n
    if n < 1:
        raise AnalysisError("R-ELEMADV: no element loop found (anchor changed)")
    return out


# ======================================================================================= byte order prefix of struct formats
def r_byteorder(repo, tier):
    out = RuleOut(
        "R-BYTEORDER",
        "every struct.pack / unpack / unpack_from / pack_into / iter_unpack call of system/structs/fields.py builds its format from "
        "the field's byte-order prefix (`self.order + ...` / a local bound to it): a format without it is read in the host's native "
        "order (and with native alignment), whatever the structure declares",
    )
    m = repo.mod(FIELDS)
    n = 0
    for f in m.functions.values():
        # locals bound to the order prefix
        ordv = {"self.order"}
        for a in ast.walk(f.node):
            if isinstance(a, ast.Assign) and isinstance(a.targets[0], ast.Name) and "self.order" in norm(a.value):
                ordv.add(a.targets[0].id)
        if "order" in f.params():
            ordv.add("order")
        for c in ast.walk(f.node):
            if isinstance(c, ast.Call) and isinstance(c.func, ast.Attribute) and isinstance(c.func.value, ast.Name) and c.func.value.id == "struct" and c.func.attr in ("pack", "unpack", "unpack_from", "pack_into", "iter_unpack") and c.args:
                n += 1
                fmt = c.args[0]
                left = fmt
                while isinstance(left, ast.BinOp) and isinstance(left.op, ast.Add):
                    left = left.left
                ok = norm(left) in ordv
                out.inst("%s::%s@%d" % (f.key, norm(c)[:60], c.lineno), {"method": f.dqual, "call": norm(c)[:80], "format_starts_with_order": ok})
                if not ok:
                    out.report(FIELDS, f.dqual, "struct.%s format %s" % (c.func.attr, norm(fmt)[:50]), c.lineno, "%s calls struct.%s with the format `%s`, which does not start with the field's byte-order prefix: the value is decoded in host order, not in the order the structure declares" % (f.dqual, c.func.attr, norm(fmt)[:60]))
    out.stats["struct_calls"] = n
    if n < 8:
        raise AnalysisError("R-BYTEORDER: only %d struct calls found in fields.py" % n)
    return out
