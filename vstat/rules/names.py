"""R-NAME, R-MODATTR, R-PRIV: crashes visible without running."""
import ast

from ..harness import RuleOut
from ..index import AnalysisError, norm
from ..scopes import unresolved_in_module, module_attr_stores, local_bindings

_UNRES = {}


def unresolved(repo, m):
    k = (id(repo), m.name)
    if k not in _UNRES:
        _UNRES[k] = unresolved_in_module(repo, m)
    return _UNRES[k]


def r_name(repo, funcs, modlevel_mods=(), rule="R-NAME", floor=0):
    """funcs: dict key->FuncInfo considered reachable.  modlevel_mods: module names whose
    module/class-level lambda scopes are in scope too (spec preconditions)."""
    out = RuleOut(
        rule,
        "every name loaded in a reachable function resolves to a local, an enclosing-function local, a module-level "
        "binding (own or star-imported, closure computed over amoco modules) or a builtin; an unresolved name is a NameError "
        "whenever that line executes",
    )
    bymod = {}
    for f in funcs.values():
        bymod.setdefault(f.mod.name, []).append(f)
    nfun = 0
    for mn in sorted(set(bymod) | set(modlevel_mods)):
        m = repo.modules[mn]
        fs = bymod.get(mn, [])
        ids = {id(f) for f in fs}
        # a nested function's uses are attributed to the innermost def; treat as in-scope if any ancestor is reachable
        us = unresolved(repo, m)
        opened = repo.is_open(mn)
        for f in fs:
            nfun += 1
            out.inst(f.key, None, nontrivial=False)
        for u in us:
            f = u.func
            if f is None:
                if mn not in modlevel_mods:
                    continue
                fq = "<module>"
            else:
                anc = f
                ok = False
                while anc is not None:
                    if id(anc) in ids:
                        ok = True
                        break
                    anc = anc.parent
                if not ok:
                    continue
                fq = f.dqual
            line = u.nodes[0].lineno
            if opened:
                out.undecide(m.rel, fq, u.name, "module has an unresolvable star-import; its namespace is unknown")
                continue
            if u.guarded:
                out.undecide(m.rel, fq, u.name, "use is inside try/except catching NameError")
                continue
            if u.bare_stmt:
                out.undecide(m.rel, fq, u.name, "bare-name expression statement: deliberate crash-if-reached marker; reachability is a value question")
                continue
            out.nontrivial.add("%s::%s::%s" % (m.rel, fq, u.name))
            out.report(m.rel, fq, u.name, line, "name %r is not defined in any enclosing scope, module namespace or builtins (NameError when line %d executes)" % (u.name, line))
    out.stats["functions"] = nfun
    if len(out.samples) < 3:
        for f in list(funcs.values())[:3]:
            out.samples.append({"function": f.key, "names_loaded": len({n.id for n in ast.walk(f.node) if isinstance(n, ast.Name)})})
    if nfun < floor:
        raise AnalysisError("%s: only %d reachable functions analysed, floor %d" % (rule, nfun, floor))
    return out


def r_modattr(repo, funcs, rule="R-MODATTR", floor=0):
    out = RuleOut(
        rule,
        "an attribute read M.a where M is bound by import to an amoco module resolves to a top-level binding or "
        "sub-module of M (else AttributeError when the line executes); skipped when M is rebound locally or M's namespace is open",
    )
    dyn = module_attr_stores(repo)
    n_sites = 0
    for f in funcs.values():
        loc = local_bindings(f.node)
        for n in ast.walk(f.node):
            if not (isinstance(n, ast.Attribute) and isinstance(n.ctx, ast.Load) and isinstance(n.value, ast.Name)):
                continue
            x = n.value.id
            if x in loc:
                continue
            r = repo.lookup(f.mod.name, x)
            if not r or r[1][0] != "module":
                continue
            M = r[1][1]
            if M not in repo.modules:
                continue
            n_sites += 1
            key = "%s::%s.%s" % (f.key, x, n.attr)
            if repo.is_open(M):
                out.undecide(f.file, f.dqual, "%s.%s" % (x, n.attr), "namespace of %s is open" % M)
                continue
            ok = n.attr in repo.namespace(M) or (M + "." + n.attr) in repo.modules or n.attr in dyn.get(M, ()) or n.attr.startswith("__")
            out.inst(key, {"site": "%s:%d" % (f.file, n.lineno), "expr": "%s.%s" % (x, n.attr), "module": M} if n_sites % 400 == 1 else None)
            if not ok:
                out.report(f.file, f.dqual, "%s.%s" % (x, n.attr), n.lineno, "module %s has no top-level binding %r (AttributeError when line %d executes)" % (M, n.attr, n.lineno))
    out.stats["sites"] = n_sites
    if n_sites < floor:
        raise AnalysisError("%s: only %d module-attribute reads analysed, floor %d" % (rule, n_sites, floor))
    return out


def r_priv(repo, classes, rule="R-PRIV", floor=0):
    out = RuleOut(
        rule,
        "a name-mangled attribute self.__x read in a class is stored (or defined as a method/class attribute) somewhere in "
        "that class; otherwise the read can only raise AttributeError",
    )
    # all explicit _C__x stores anywhere
    explicit = set()
    for m in repo.modules.values():
        for n in ast.walk(m.tree):
            if isinstance(n, ast.Attribute) and isinstance(n.ctx, ast.Store) and n.attr.startswith("_") and "__" in n.attr[1:]:
                explicit.add(n.attr)
    ncls = 0
    for c in classes:
        ncls += 1
        defined = set()
        reads = {}
        for n in ast.walk(c.node):
            if isinstance(n, ast.Attribute) and n.attr.startswith("__") and not n.attr.endswith("__"):
                if isinstance(n.ctx, ast.Store):
                    defined.add(n.attr)
                else:
                    reads.setdefault(n.attr, []).append(n)
            elif isinstance(n, (ast.FunctionDef, ast.AsyncFunctionDef)) and n.name.startswith("__") and not n.name.endswith("__"):
                defined.add(n.name)
        for s in c.node.body:
            if isinstance(s, ast.Assign):
                for t in s.targets:
                    if isinstance(t, ast.Name) and t.id.startswith("__"):
                        defined.add(t.id)
        # __slots__ declared private names count as declared only, not stored: still need a store
        for a, nodes in reads.items():
            mangled = "_%s%s" % (c.name.lstrip("_"), a)
            out.inst("%s::%s::%s" % (c.mod.rel, c.name, a), {"class": c.name, "attr": a, "stored": a in defined})
            if a in defined or mangled in explicit:
                continue
            # reads through hasattr/getattr guards cannot be seen; a read under try/except AttributeError is fine
            n0 = nodes[0]
            fq = c.name
            for f in c.methods.values():
                if f.node.lineno <= n0.lineno <= (f.node.end_lineno or n0.lineno):
                    fq = f.dqual
            out.report(c.mod.rel, fq, "self.%s" % a, n0.lineno, "private attribute %s (mangled %s) is read but never stored in class %s (AttributeError)" % (a, mangled, c.name))
    out.stats["classes"] = ncls
    if ncls < floor:
        raise AnalysisError("%s: only %d classes analysed, floor %d" % (rule, ncls, floor))
    return out


# ---------------------------------------------------------------------------
def _guarded_import(parents, n):
    c = n
    while c in parents:
        p = parents[c]
        if isinstance(p, ast.Try) and c in p.body:
            for h in p.handlers:
                if h.type is None:
                    return True
                names = [e.id if isinstance(e, ast.Name) else getattr(e, "attr", "?") for e in (h.type.elts if isinstance(h.type, ast.Tuple) else [h.type])]
                if set(names) & {"ImportError", "ModuleNotFoundError", "Exception", "BaseException"}:
                    return True
        if isinstance(p, (ast.FunctionDef, ast.AsyncFunctionDef, ast.Lambda)):
            return None  # not executed at import time
        c = p
    return False


def _toplevel_imports(m):
    """Import/ImportFrom nodes executed when the module is imported (not inside def/lambda)."""
    out = []

    def rec(n):
        for c in ast.iter_child_nodes(n):
            if isinstance(c, (ast.FunctionDef, ast.AsyncFunctionDef, ast.Lambda)):
                continue
            if isinstance(c, (ast.Import, ast.ImportFrom)):
                out.append(c)
            else:
                rec(c)

    rec(m.tree)
    return out


SKIPPED_PREFIXES = ("amoco.ui.graphics",)


def import_closure(repo, modname):
    seen = []
    todo = [modname]
    while todo:
        mn = todo.pop()
        if mn in seen or mn not in repo.modules:
            continue
        seen.append(mn)
        m = repo.modules[mn]
        # parent packages are imported too
        parts = mn.split(".")
        for k in range(1, len(parts)):
            todo.append(".".join(parts[:k]))
        for n in _toplevel_imports(m):
            if isinstance(n, ast.ImportFrom):
                t = repo.resolve_from(m, n)
                if t:
                    todo.append(t)
                    for a in n.names:
                        todo.append(t + "." + a.name)
            else:
                for a in n.names:
                    todo.append(a.name)
    return seen


def import_errors(repo, m):
    """definite import-time failures of module m's own top-level import statements."""
    errs = []
    parents = {}
    for p in ast.walk(m.tree):
        for c in ast.iter_child_nodes(p):
            parents[c] = p
    for n in ast.walk(m.tree):
        if isinstance(n, ast.ImportFrom):
            g = _guarded_import(parents, n)
            if g is None or g:
                continue
            t = repo.resolve_from(m, n)
            if not t or not t.startswith("amoco") or t.startswith(SKIPPED_PREFIXES):
                continue
            if t not in repo.modules:
                errs.append((n, "from %s import ...: no such module (ModuleNotFoundError at import)" % t, "from %s import" % t))
                continue
            if repo.is_open(t):
                continue
            ns = repo.namespace(t)
            for a in n.names:
                if a.name == "*":
                    continue
                if a.name not in ns and (t + "." + a.name) not in repo.modules:
                    errs.append((n, "cannot import name %r from %s (ImportError at import)" % (a.name, t), "from %s import %s" % (t, a.name)))
        elif isinstance(n, ast.Import):
            g = _guarded_import(parents, n)
            if g is None or g:
                continue
            for a in n.names:
                if a.name.startswith("amoco") and not a.name.startswith(SKIPPED_PREFIXES) and a.name not in repo.modules:
                    errs.append((n, "import %s: no such module (ModuleNotFoundError at import)" % a.name, "import %s" % a.name))
    return errs


def call_arity_error(repo, cg, mod, call, localnames=()):
    """definite TypeError of a call whose callee resolves by name to an amoco def/class; else None."""
    f = call.func
    target = None
    bound_self = False
    if isinstance(f, ast.Name):
        if f.id in localnames:
            return None
        # only if the name has a single binding in its module (no conditional redefinition)
        t = cg.resolve_name(mod, f.id)
        r = repo.lookup(mod.name, f.id)
        if r and r[0] is not None and len(r[0].bindings.get(f.id if r[0] is mod else (r[1][1].name if r[1][0] in ("def", "class") else f.id), [1])) > 1:
            return None
        target = t
    elif isinstance(f, ast.Attribute) and isinstance(f.value, ast.Name) and f.value.id not in localnames:
        t = cg.resolve_name(mod, f.value.id)
        if isinstance(t, tuple) and t[1] in repo.modules:
            tm = repo.modules[t[1]]
            if len(tm.bindings.get(f.attr, [])) > 1:
                return None
            target = cg.resolve_name(tm, f.attr)
    if target is None or isinstance(target, tuple):
        return None
    if hasattr(target, "methods"):
        # class: need __init__ through a fully resolved MRO
        ci = target
        mro = repo.mro(ci)
        # walk the by-name MRO: the first class defining __init__ decides the signature; an unresolved (external) base
        # met before that may define it instead -> undecided.  Builtin exception bases accept any arguments in __new__.
        init = None
        for c in mro:
            if "__new__" in c.methods:
                return None
            if "__init__" in c.methods:
                init = c.methods["__init__"]
                break
            unresolved = [b for b in c.bases if b is None or (b != "object" and repo.find_class(c.mod.name, b) is None)]
            if unresolved:
                return None
        # metaclass keyword
        if any(k.arg == "metaclass" for c in mro for k in c.node.keywords):
            return None
        if init is None:
            fn = None
            nparams, required, kwok, varpos, names = 0, 0, False, False, []
            if call.args or call.keywords:
                if any(isinstance(a, ast.Starred) for a in call.args) or any(k.arg is None for k in call.keywords):
                    return None
                return "%s() takes no arguments" % ci.name
            return None
        fn = init.node
        bound_self = True
        name = ci.name
    else:
        fn = target.node
        name = target.name
        if target.cls is not None:
            return None
        if fn.decorator_list:
            # decorated functions may have a different signature (except ispec which returns handler)
            from ..ispecmodel import _deco_name

            if any(_deco_name(d) not in ("ispec", "ispec_ia32") for d in fn.decorator_list):
                return None
    if any(isinstance(a, ast.Starred) for a in call.args) or any(k.arg is None for k in call.keywords):
        return None
    a = fn.args
    pos = [x.arg for x in a.posonlyargs + a.args]
    if bound_self:
        pos = pos[1:]
    ndef = len(a.defaults)
    required = pos[: len(pos) - ndef] if ndef else list(pos)
    npos = len(call.args)
    if npos > len(pos) and a.vararg is None:
        return "%s() takes %d positional argument%s but %d were given" % (name, len(pos), "" if len(pos) == 1 else "s", npos)
    given = set(pos[:npos]) | {k.arg for k in call.keywords}
    kwonly = {x.arg for x in a.kwonlyargs}
    for k in call.keywords:
        if k.arg not in pos and k.arg not in kwonly and a.kwarg is None:
            return "%s() got an unexpected keyword argument %r" % (name, k.arg)
        if k.arg in pos[:npos]:
            return "%s() got multiple values for argument %r" % (name, k.arg)
    missing = [p for p in required if p not in given]
    if missing:
        return "%s() missing required positional argument%s %s" % (name, "" if len(missing) == 1 else "s", ", ".join(missing))
    for x, d in zip(a.kwonlyargs, a.kw_defaults):
        if d is None and x.arg not in given:
            return "%s() missing required keyword-only argument %s" % (name, x.arg)
    return None


def module_level_calls(m):
    """Call nodes executed at import time (module level, not in def/lambda bodies; class bodies included)."""
    out = []

    def rec(n):
        for c in ast.iter_child_nodes(n):
            if isinstance(c, (ast.FunctionDef, ast.AsyncFunctionDef)):
                for d in c.decorator_list + c.args.defaults:
                    rec_expr(d)
                continue
            if isinstance(c, ast.Lambda):
                continue
            if isinstance(c, ast.Call):
                out.append(c)
            rec(c)

    def rec_expr(e):
        if isinstance(e, ast.Call):
            out.append(e)
        rec(e)

    rec(m.tree)
    return out


def r_dupkey(repo, modnames, rule="R-DUPKEY"):
    out = RuleOut(
        rule,
        "no dict display (table literal) repeats a key: the later row silently replaces the earlier one, so one row of the "
        "table is lost (a decoded condition / record type / size then has no entry or the wrong one)",
    )
    n = 0
    for mn in sorted(modnames):
        m = repo.modules[mn]
        for d in ast.walk(m.tree):
            if not isinstance(d, ast.Dict) or len(d.keys) < 2:
                continue
            n += 1
            seen = {}
            for k, v in zip(d.keys, d.values):
                if isinstance(k, ast.Constant):
                    kk = (type(k.value).__name__, k.value)
                elif isinstance(k, ast.Name):
                    kk = ("name", k.id)
                else:
                    continue
                if kk in seen:
                    out.report(m.rel, "<module>" if True else "", "duplicate key %s" % norm(k), k.lineno, "dict literal at line %d repeats key %s (first value %s, now %s): the earlier row is lost" % (d.lineno, norm(k), norm(seen[kk])[:40], norm(v)[:40]))
                seen[kk] = v
            if n % 200 == 1:
                out.inst("%s::dict@%d" % (m.rel, d.lineno), {"file": m.rel, "line": d.lineno, "rows": len(d.keys)})
            else:
                out.inst("%s::dict@%d" % (m.rel, d.lineno), None)
    out.stats["dict_literals"] = n
    if n < 100:
        raise AnalysisError("%s: only %d dict literals scanned" % (rule, n))
    return out
