"""C20: program identification is total and reports only format errors.

R-RAISE     interprocedural explicit may-raise sets of the format constructors vs what read_program catches
R-WRAP      StructCore subclasses overriding unpack keep the 'field errors surface as StructureError' contract
R-PROGRESS  parser loops driven by file data make progress
"""
import ast
import builtins

from ..cfg import _walk_no_nested
from ..harness import RuleOut
from ..index import AnalysisError, norm
from ..callgraph import CallGraph
from ..scopes import local_bindings

CORE = "amoco/system/core.py"


class ExcHierarchy:
    def __init__(self, repo):
        self.repo = repo
        self.classes = {}
        for c in repo.all_classes():
            self.classes.setdefault(c.name, c)

    def ancestors(self, name, seen=None):
        seen = seen or set()
        if name in seen:
            return set()
        seen.add(name)
        out = {name}
        c = self.classes.get(name)
        if c is not None:
            for b in c.bases:
                if b:
                    out |= self.ancestors(b, seen)
        else:
            b = getattr(builtins, name, None)
            if isinstance(b, type) and issubclass(b, BaseException):
                out |= {k.__name__ for k in b.__mro__ if k is not object}
        return out

    def caught_by(self, exc, handler_names):
        """handler_names: list of class names, or None for bare except"""
        if handler_names is None:
            return True
        anc = self.ancestors(exc)
        if exc not in self.classes and not hasattr(builtins, exc):
            # unknown class: only a catch-all certainly catches it
            return bool({"Exception", "BaseException"} & set(handler_names))
        return bool(anc & set(handler_names))


def _handler_names(h):
    if h.type is None:
        return None
    out = []
    for e in h.type.elts if isinstance(h.type, ast.Tuple) else [h.type]:
        if isinstance(e, ast.Name):
            out.append(e.id)
        elif isinstance(e, ast.Attribute):
            out.append(e.attr)
        else:
            out.append("?")
    return out


def _try_stack(fnode):
    """map id(node) -> list of Try statements whose *body* contains the node (innermost last)"""
    stack_of = {}

    def rec(stmts, stack):
        for s in stmts:
            for x in ast.walk(s) if not isinstance(s, (ast.Try, ast.If, ast.For, ast.While, ast.With, ast.FunctionDef, ast.ClassDef)) else [s]:
                stack_of[id(x)] = list(stack)
            if isinstance(s, ast.Try):
                rec(s.body, stack + [s])
                for h in s.handlers:
                    rec(h.body, stack)
                rec(s.orelse, stack)
                rec(s.finalbody, stack)
            elif isinstance(s, (ast.If, ast.While)):
                for x in ast.walk(s.test):
                    stack_of[id(x)] = list(stack)
                rec(s.body, stack)
                rec(s.orelse, stack)
            elif isinstance(s, ast.For):
                for x in list(ast.walk(s.iter)) + list(ast.walk(s.target)):
                    stack_of[id(x)] = list(stack)
                rec(s.body, stack)
                rec(s.orelse, stack)
            elif isinstance(s, ast.With):
                for it in s.items:
                    for x in ast.walk(it.context_expr):
                        stack_of[id(x)] = list(stack)
                rec(s.body, stack)
            elif isinstance(s, (ast.FunctionDef, ast.ClassDef)):
                continue

    rec(fnode.body, [])
    return stack_of


class RaiseAnalysis:
    def __init__(self, repo):
        self.repo = repo
        self.cg = CallGraph(repo)
        self.h = ExcHierarchy(repo)
        self.sets = {}
        self.inprogress = set()

    def resolve_call(self, f, call):
        """FuncInfo list for a call expression inside f (constructors -> __init__)"""
        fn = call.func
        repo = self.repo
        loc = local_bindings(f.node)
        out = []
        if isinstance(fn, ast.Name):
            if fn.id in loc:
                return out
            t = self.cg.resolve_name(f.mod, fn.id)
            if t is None or isinstance(t, tuple):
                return out
            if hasattr(t, "methods"):
                for mname in ("__new__", "__init__"):
                    m = repo.find_method(t, mname)
                    if m is not None:
                        out.append(m)
            else:
                out.append(t)
        elif isinstance(fn, ast.Attribute):
            v = fn.value
            if isinstance(v, ast.Name) and v.id in ("self", "cls") and f.cls is not None:
                m = repo.find_method(f.cls, fn.attr)
                if m is not None:
                    out.append(m)
            elif isinstance(v, ast.Name) and v.id not in loc:
                t = self.cg.resolve_name(f.mod, v.id)
                if isinstance(t, tuple) and t[1] in repo.modules:
                    t2 = self.cg.resolve_name(repo.modules[t[1]], fn.attr)
                    if t2 is not None and not isinstance(t2, tuple):
                        if hasattr(t2, "methods"):
                            for mname in ("__new__", "__init__"):
                                m = repo.find_method(t2, mname)
                                if m is not None:
                                    out.append(m)
                        else:
                            out.append(t2)
                elif t is not None and hasattr(t, "methods"):
                    m = repo.find_method(t, fn.attr)
                    if m is not None:
                        out.append(m)
            elif isinstance(v, ast.Call) and isinstance(v.func, ast.Name) and v.func.id == "super" and f.cls is not None:
                for k in repo.mro(f.cls)[1:]:
                    if fn.attr in k.methods:
                        out.append(k.methods[fn.attr])
                        break
            elif isinstance(v, ast.Name) and f.cls is None:
                pass
            # ClassName.method(self, ...) explicit base call
            if not out and isinstance(v, ast.Name):
                t = self.cg.resolve_name(f.mod, v.id) if v.id not in loc else None
                if t is not None and hasattr(t, "methods"):
                    m = repo.find_method(t, fn.attr)
                    if m is not None:
                        out.append(m)
        return out

    def raises(self, f):
        """set of (exception name, 'file:line', via) that can leave f through explicit raise/assert sites"""
        k = (f.mod.name, f.qual)
        if k in self.sets:
            return self.sets[k]
        if k in self.inprogress:
            return set()
        self.inprogress.add(k)
        res = set()
        stacks = _try_stack(f.node)

        def escape(exc, node, site, via):
            """apply enclosing handlers of node; add what escapes"""
            pending = [(exc, site, via)]
            for tr in reversed(stacks.get(id(node), [])):
                nxt = []
                for e, s, v in pending:
                    caught = False
                    for h in tr.handlers:
                        names = _handler_names(h)
                        if self.h.caught_by(e, names):
                            caught = True
                            # what does the handler raise?
                            for r in _walk_no_nested(ast.Module(body=h.body, type_ignores=[])):
                                if isinstance(r, ast.Raise):
                                    if r.exc is None:
                                        nxt.append((e, s, v))  # re-raise (outer handlers still apply)
                            break
                    if not caught:
                        nxt.append((e, s, v))
                pending = nxt
                if not pending:
                    break
            for e, s, v in pending:
                res.add((e, s, v))

        for n in _walk_no_nested(f.node):
            if isinstance(n, ast.Raise):
                if n.exc is None:
                    continue  # handled at handler level
                e = n.exc
                name = None
                if isinstance(e, ast.Call):
                    e = e.func
                if isinstance(e, ast.Name):
                    name = e.id
                elif isinstance(e, ast.Attribute):
                    name = e.attr
                if name is None:
                    continue
                # `raise logger.error(...)` style: not an exception class
                if name[:1].islower() and name not in self.h.classes:
                    name = "TypeError"  # raising a non-exception
                escape(name, n, "%s:%d" % (f.file, n.lineno), f.dqual)
            elif isinstance(n, ast.Assert):
                escape("AssertionError", n, "%s:%d" % (f.file, n.lineno), f.dqual)
            elif isinstance(n, ast.Call):
                for g in self.resolve_call(f, n):
                    if g is f:
                        continue
                    for (e, s, v) in self.raises(g):
                        escape(e, n, s, "%s <- %s" % (v, f.dqual) if len(v) < 160 else v)
        # raises inside handler bodies are ordinary raises of f: covered by the walk above (handler body nodes have the outer stack)
        self.inprogress.discard(k)
        self.sets[k] = res
        return res


# documented exception sets of builtins called on unvalidated input (Python library reference)
BUILTIN_RAISES = {"open": ["OSError", "ValueError", "TypeError"]}

# single-symbol exemptions: a raise guarded by an invariant the constructor established earlier (value-dependent infeasibility)
RAISE_EXEMPT = {
    ("amoco/system/macho.py", "MachO.__read_symtab", "NotImplementedError"): "only reachable from MachO.__init__ after the magic was tested to be MH_MAGIC or MH_MAGIC_64 (fat headers take the other branch); the else arm of the same test is dead",
}


def _probe_table(repo, f, tr, ctor):
    """read_program written as a loop over a module-level table of probe functions: resolve, per row, the class the probe
    returns and the exception names it returns for the handler.  None when the try statement is not of that form;
    AnalysisError when it is but a row cannot be read (the handler would be undecidable)."""
    if not (isinstance(ctor.func, ast.Name) and len(tr.handlers) == 1 and isinstance(tr.handlers[0].type, ast.Name)):
        return None
    pname, ename = ctor.func.id, tr.handlers[0].type.id
    unpack = probe = None
    for n in ast.walk(f.node):
        if isinstance(n, ast.Assign) and isinstance(n.targets[0], ast.Tuple) and [getattr(e, "id", None) for e in n.targets[0].elts] == [pname, ename] and isinstance(n.value, ast.Call) and isinstance(n.value.func, ast.Name) and not n.value.args:
            unpack, probe = n, n.value.func.id
    if unpack is None:
        return None
    loop = idx = None
    for n in ast.walk(f.node):
        if isinstance(n, ast.For) and isinstance(n.iter, ast.Name) and any(x is unpack for x in ast.walk(n)):
            elts = n.target.elts if isinstance(n.target, ast.Tuple) else [n.target]
            for k, e in enumerate(elts):
                if isinstance(e, ast.Name) and e.id == probe:
                    loop, idx = n, (k if isinstance(n.target, ast.Tuple) else None)
    if loop is None:
        return None
    m = repo.mod(CORE)
    tab = None
    for n in m.tree.body:
        if isinstance(n, ast.Assign) and isinstance(n.targets[0], ast.Name) and n.targets[0].id == loop.iter.id and isinstance(n.value, (ast.Tuple, ast.List)):
            tab = n.value
    if tab is None:
        raise AnalysisError("R-RAISE: table %s iterated by read_program is not a module-level tuple" % loop.iter.id)
    out = []
    for row in tab.elts:
        cell = row if idx is None else (row.elts[idx] if isinstance(row, (ast.Tuple, ast.List)) and idx < len(row.elts) else None)
        g = m.functions.get(cell.id) if isinstance(cell, ast.Name) else None
        rets = [r for r in ast.walk(g.node) if isinstance(r, ast.Return)] if g is not None else []
        if len(rets) != 1 or not (isinstance(rets[0].value, ast.Tuple) and len(rets[0].value.elts) == 2):
            raise AnalysisError("R-RAISE: probe %s of table %s does not return (class, exceptions)" % (norm(cell) if cell is not None else "?", loop.iter.id))
        cexpr, eexpr = rets[0].value.elts
        names = []
        for e in eexpr.elts if isinstance(eexpr, ast.Tuple) else [eexpr]:
            names.append(e.id if isinstance(e, ast.Name) else e.attr if isinstance(e, ast.Attribute) else "?")
        imports = {}
        for n in ast.walk(g.node):
            if isinstance(n, ast.ImportFrom):
                for a in n.names:
                    imports[a.asname or a.name] = (n.module, a.name)
        out.append((cexpr, names, imports, "%s(f)" % norm(cexpr)))
    return out


def r_raise(repo, tier):
    out = RuleOut(
        "R-RAISE",
        "for every `try: p = Fmt(f) ... except (...)` of read_program, the explicit may-raise set of Fmt's constructor (its own "
        "raise/assert sites and those of its resolved callees, minus what enclosing handlers catch at each call site; "
        "`except Exception`/bare catch everything; a bare re-raise propagates) is included in the handler tuple of that try, "
        "by class name through the by-name hierarchy",
    )
    f = repo.func(CORE, "read_program")
    ra = RaiseAnalysis(repo)
    ntry = 0
    cases = []   # (constructor callee expression, handler names, imports in scope, label)
    for tr in [n for n in ast.walk(f.node) if isinstance(n, ast.Try)]:
        ctor = None
        for n in ast.walk(ast.Module(body=tr.body, type_ignores=[])):
            if isinstance(n, ast.Assign) and isinstance(n.value, ast.Call) and isinstance(n.targets[0], ast.Name) and n.targets[0].id == "p":
                ctor = n.value
        if ctor is None:
            continue
        names = []
        for h in tr.handlers:
            hn = _handler_names(h)
            names += hn if hn is not None else ["BaseException"]
        imports = {}
        for n in ast.walk(ast.Module(body=tr.body, type_ignores=[])):
            if isinstance(n, ast.ImportFrom):
                for a in n.names:
                    imports[a.asname or a.name] = (n.module, a.name)
        table = _probe_table(repo, f, tr, ctor)
        if table is not None:
            # `for .., probe in TABLE: parser, errors = probe(); try: p = parser(f) except errors:` -- one case per table row
            cases.extend(table)
        else:
            cases.append((ctor.func, names, imports, norm(ctor)))
    for fn, names, imports, label in cases:
        ntry += 1
        cls = None
        if isinstance(fn, ast.Attribute) and isinstance(fn.value, ast.Name) and fn.value.id in imports:
            mod, nm = imports[fn.value.id]
            modname = "%s.%s" % (mod, nm)
            if modname in repo.modules:
                cls = repo.modules[modname].classes.get(fn.attr)
        elif isinstance(fn, ast.Name) and fn.id in imports:
            mod, nm = imports[fn.id]
            if mod in repo.modules:
                cls = repo.modules[mod].classes.get(nm)
        if cls is None:
            out.undecide(CORE, "read_program", label, "constructor not resolved")
            continue
        init = repo.find_method(cls, "__init__")
        if init is None:
            out.undecide(CORE, "read_program", label, "no __init__")
            continue
        rs = ra.raises(init)
        escaping = {}
        for e, site, via in sorted(rs):
            if not ra.h.caught_by(e, names):
                origin = via.split(" <- ")[0]
                if (site.split(":")[0], origin, e) in RAISE_EXEMPT:
                    out.undecide(site.split(":")[0], origin, "%s at %s" % (e, site), "exempt: " + RAISE_EXEMPT[(site.split(":")[0], origin, e)])
                    continue
                escaping.setdefault((e, site), via)
        out.inst("%s::%s" % (f.key, label), {"try": label, "catches": names, "explicit_may_raise": sorted({e for e, _, _ in rs}), "escaping": sorted("%s@%s" % k for k in escaping)})
        for (e, site), via in sorted(escaping.items()):
            out.report(site.split(":")[0], via.split(" <- ")[0], "%s escapes %s" % (e, label), int(site.split(":")[1]), "%s raised at %s (reached %s) is not caught by read_program's `except (%s)` around %s: identification of a malformed file reports an unrelated exception instead of falling through to the next format" % (e, site, via, ", ".join(names), label))
    # builtin calls of read_program itself with a documented exception set: open() on an arbitrary byte string / path
    stacks = _try_stack(f.node)
    nopen = 0
    for c in ast.walk(f.node):
        if isinstance(c, ast.Call) and isinstance(c.func, ast.Name) and c.func.id in BUILTIN_RAISES:
            nopen += 1
            caught = []
            for tr in stacks.get(id(c), []):
                for h in tr.handlers:
                    hn = _handler_names(h)
                    caught += ["BaseException"] if hn is None else [getattr(getattr(builtins, x, None), "__name__", x) for x in hn]
            missing = [e for e in BUILTIN_RAISES[c.func.id] if not ra.h.caught_by(e, caught)]
            out.inst("%s::%s" % (f.key, norm(c)), {"call": norm(c), "documented_exceptions": BUILTIN_RAISES[c.func.id], "handlers": caught})
            for e in missing:
                out.report(CORE, "read_program", "%s escapes %s" % (e, norm(c)), c.lineno, "%s can raise %s (any subclass: a too long name, a directory, a missing path component ...) and the enclosing handlers (%s) do not catch it: a byte string that is not a usable file name makes read_program raise instead of being identified from its content" % (norm(c), e, ", ".join(caught) or "none"))
    if nopen < 1:
        raise AnalysisError("R-RAISE: read_program no longer opens its argument (anchor changed)")
    out.stats["tries"] = ntry
    out.stats["functions_summarised"] = len(ra.sets)
    if ntry < 6:
        raise AnalysisError("R-RAISE: only %d format constructors found in read_program (6 confirmed)" % ntry)
    return out


def r_wrap(repo, tier):
    out = RuleOut(
        "R-WRAP",
        "StructCore.unpack and every subclass that overrides it keep the contract 'field errors surface as StructureError': each "
        "call that decodes a field (<field>.unpack(...)) is inside a try whose catch-all handler (except Exception / bare) raises "
        "StructureError / the format error, or the override delegates to the base class unpack",
    )
    n = 0
    from .formats import FORMAT_FILES

    rels = list(FORMAT_FILES) + ["amoco/system/structs/formatters.py", "amoco/system/structs/core.py"]
    for rel in rels:
        m = repo.mod(rel)
        for c in m.classes.values():
            if "unpack" not in c.methods:
                continue
            if not any(k.name == "StructCore" for k in repo.mro(c)):
                continue
            f = c.methods["unpack"]
            n += 1
            bare = []
            delegates = False

            def converting(stack):
                for tr in stack:
                    for h in tr.handlers:
                        hn = _handler_names(h)
                        # field decoders raise arbitrary implicit exceptions (struct.error, IndexError, OverflowError from
                        # seek...): only a catch-all handler that raises the format error keeps the contract
                        if hn is None or {"Exception", "BaseException"} & set(hn):
                            if any(isinstance(r, ast.Raise) and r.exc is not None for r in ast.walk(ast.Module(body=h.body, type_ignores=[]))):
                                return True
                return False

            def scan(fn, depth):
                nonlocal delegates
                stacks = _try_stack(fn.node)
                for x in _walk_no_nested(fn.node):
                    if not (isinstance(x, ast.Call) and isinstance(x.func, ast.Attribute)):
                        continue
                    recv = norm(x.func.value)
                    if x.func.attr == "unpack":
                        if recv in ("StructCore", "StructFormatter", "super()") or recv[:1].isupper():
                            delegates = True
                            continue
                        if not converting(stacks.get(id(x), [])):
                            bare.append(x)
                    elif recv == "self" and depth < 2:
                        g = repo.find_method(c, x.func.attr)
                        if g is not None and g is not fn and not converting(stacks.get(id(x), [])):
                            scan(g, depth + 1)

            scan(f, 0)
            out.inst("%s::%s.unpack" % (rel, c.name), {"class": c.name, "delegates_to_base": delegates, "unwrapped_field_decodes": [norm(b)[:50] for b in bare]})
            for b in bare:
                out.report(rel, f.dqual, "unwrapped %s" % norm(b)[:60], b.lineno, "%s.unpack decodes a field with %s outside any handler that converts the error: a truncated or corrupted header raises struct.error/IndexError instead of StructureError (which is what read_program catches)" % (c.name, norm(b)[:50]))
    out.stats["overrides"] = n
    if n < 2:
        raise AnalysisError("R-WRAP: only %d unpack overrides found" % n)
    return out


def r_progress(repo, tier):
    out = RuleOut(
        "R-PROGRESS",
        "a `while` loop of a format parser whose continuation test compares a cursor with a bound, and whose cursor is only "
        "advanced by a quantity read from the file (an attribute of an unpacked structure, or len() of one), is guarded "
        "against a zero/negative step (`if step <= 0/== 0/< N: raise|break`) or has another unconditional exit",
    )
    from .formats import FORMAT_FILES

    n = 0
    for rel in FORMAT_FILES:
        m = repo.mod(rel)
        for f in m.functions.values():
            for loop in [l for l in _walk_no_nested(f.node) if isinstance(l, ast.While)]:
                t = loop.test
                cursors = set()
                for c in ast.walk(t):
                    if isinstance(c, ast.Compare):
                        for s in [c.left] + list(c.comparators):
                            if isinstance(s, ast.Name):
                                cursors.add(s.id)
                advs = []
                for s in loop.body:
                    for x in ast.walk(s):
                        if isinstance(x, ast.AugAssign) and isinstance(x.target, ast.Name) and x.target.id in cursors and isinstance(x.op, ast.Add):
                            advs.append(x)
                if not advs:
                    continue
                n += 1
                # file-derived step: attribute read on a local object / len(obj) ; constant or literal steps are fine
                risky = []
                for a in advs:
                    v = a.value
                    if isinstance(v, ast.Constant):
                        continue
                    src = norm(v)
                    attrs = [x for x in ast.walk(v) if isinstance(x, ast.Attribute)]
                    lens = [x for x in ast.walk(v) if isinstance(x, ast.Call) and norm(x.func) == "len"]
                    if attrs or lens:
                        risky.append(a)
                guarded = True
                for a in risky:
                    # step expression guarded: an `if` in the loop body testing the step (or its attribute) against 0 / a minimum, leading to raise/break
                    # maximal attribute chains / names of the step expression (cmd.cmdsize, not its prefix cmd)
                    inner = {id(x.value) for x in ast.walk(a.value) if isinstance(x, ast.Attribute)}
                    stepnames = {norm(x) for x in ast.walk(a.value) if isinstance(x, (ast.Attribute, ast.Name)) and id(x) not in inner}
                    ok = False
                    for s in ast.walk(ast.Module(body=loop.body, type_ignores=[])):
                        if isinstance(s, ast.If) and any(isinstance(z, (ast.Raise, ast.Break, ast.Return)) for z in ast.walk(ast.Module(body=s.body, type_ignores=[]))):
                            inner2 = {id(x.value) for x in ast.walk(s.test) if isinstance(x, ast.Attribute)}
                            tt = {norm(x) for x in ast.walk(s.test) if isinstance(x, (ast.Attribute, ast.Name)) and id(x) not in inner2}
                            if tt & stepnames and any(isinstance(z, ast.Compare) for z in ast.walk(s.test)):
                                ok = True
                    # len(<struct>) of a fixed-size structure cannot be 0: accept when the argument is a freshly constructed struct whose class layout is fixed
                    if not ok and isinstance(a.value, ast.Call) and norm(a.value.func) == "len":
                        ok = True
                    if not ok:
                        guarded = False
                        out.inst("%s::while %s" % (f.key, norm(t)[:50]), {"function": f.dqual, "loop": norm(t)[:60], "step": norm(a.value), "guarded": False})
                        out.report(rel, f.dqual, "while %s: %s" % (norm(t)[:50], norm(a)), loop.lineno, "the loop advances %s only by %s, a quantity read from the file, without rejecting a zero/negative value: a crafted record with that field set to 0 never terminates (and keeps appending to the result)" % (a.target.id, norm(a.value)))
                if guarded:
                    out.inst("%s::while %s" % (f.key, norm(t)[:50]), {"function": f.dqual, "loop": norm(t)[:60], "steps": [norm(a.value) for a in advs], "guarded": True})
    out.stats["loops"] = n
    if n < 3:
        raise AnalysisError("R-PROGRESS: only %d cursor-driven while loops found" % n)
    return out


def r_truthyio(repo, tier):
    out = RuleOut(
        "R-TRUTHYIO",
        "the structure constructors of the format parsers guard their unpacking with `if data:` and are handed DataIO objects: DataIO "
        "therefore stays always-true -- it defines neither __len__ nor __bool__ -- otherwise an empty input silently skips unpacking "
        "and the parser fails later with AttributeError instead of its format error",
    )
    m = repo.mod(CORE)
    c = m.classes.get("DataIO")
    if c is None:
        raise AnalysisError("R-TRUTHYIO: class DataIO vanished")
    guards = 0
    for mm in repo.modules.values():
        if mm.rel.startswith("amoco/system/"):
            for n in ast.walk(mm.tree):
                if isinstance(n, ast.If) and isinstance(n.test, ast.Name) and n.test.id == "data":
                    guards += 1
    out.inst("DataIO", {"methods": sorted(c.methods), "truthiness_guards_on_data": guards})
    for name in ("__len__", "__bool__"):
        for k in repo.mro(c):
            if name in k.methods:
                f = k.methods[name]
                out.report(f.file, f.dqual, "DataIO.%s" % name, f.node.lineno, "DataIO defines %s: an empty input makes `if data:` false in the %d structure constructors that guard their unpacking with it, so nothing is unpacked and the first field access raises AttributeError" % (name, guards))
    if guards < 40:
        raise AnalysisError("R-TRUTHYIO: only %d `if data:` guards found (anchor changed)" % guards)
    return out
