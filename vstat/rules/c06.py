"""C06: instruction semantics match the architecture (structural clauses).

R-ISATAB  shipped rv32i/rv64i specs == ISA manual encoding table (fixed bits, register fields, immediate bits/order)
R-PC      every RISC-V i_XXX advances pc exactly once; pc-relative semantics read the instruction's own pc
R-SIGNED  signed / unsigned ordered comparisons are marked as the manual requires
R-RAW     source registers are read before the destination register is written (rd may equal rs1)
R-CCTAB   x86/x64 CONDITION_CODES == SDM truth tables
"""
import ast
import itertools
import json
import os

from .. import VERIF
from ..cfg import CFG, _walk_no_nested
from ..harness import RuleOut
from ..index import AnalysisError, norm
from ..callgraph import CallGraph
from .spec import specs

RV = {"rv32i": ("amoco.arch.riscv.rv32i.spec_rv32i", "amoco.arch.riscv.rv32i.asm", "amoco.arch.riscv.cpu_rv32i"), "rv64i": ("amoco.arch.riscv.rv64i.spec_rv64i", "amoco.arch.riscv.rv64i.asm", "amoco.arch.riscv.cpu_rv64i")}


def load(name):
    with open(os.path.join(VERIF, "ref", name)) as fh:
        return json.load(fh)


def ref_fix_mask(row):
    fix = mask = 0

    def put(bits, lo):
        nonlocal fix, mask
        n = len(bits)
        fix |= int(bits, 2) << lo
        mask |= ((1 << n) - 1) << lo

    put(row["opcode"], 0)
    if "funct3" in row:
        put(row["funct3"], 12)
    if "funct7" in row:
        put(row["funct7"], 25)
    if "funct6" in row:
        put(row["funct6"], 26)
    if "imm12" in row:
        put(row["imm12"], 20)
    if "rs1" in row:
        put(row["rs1"], 15)
    if "rd" in row:
        put(row["rd"], 7)
    return fix, mask


def r_isatab(repo, tier):
    out = RuleOut(
        "R-ISATAB",
        "for every shipped rv32i/rv64i spec whose mnemonic is in the vendored ISA-manual table: its fixed bits equal the "
        "table's opcode/funct3/funct7 (and fix nothing the ISA leaves variable), rd/rs1/rs2 directives sit at bits "
        "7-11/15-19/20-24, the immediate directives cover exactly the format's immediate bits, the setup function "
        "concatenates them in increasing significance as the format prescribes, scales by the format's shift and "
        "sign-extends where the format is signed",
    )
    ref = load("riscv_base.json")
    decls, _ = specs(repo)
    n = 0
    for isa, (specmod, asmmod, cpumod) in RV.items():
        if specmod not in repo.modules:
            raise AnalysisError("anchor vanished: %s" % specmod)
        table = ref[isa]
        seen_mn = set()
        for s in decls:
            if s.func.mod.name != specmod or s.model is None:
                continue
            mn = s.mnemonic
            if mn is None:
                out.undecide(s.func.file, s.func.dqual, s.raw, "mnemonic not a literal")
                continue
            row = table.get(mn)
            if row is None:
                out.undecide(s.func.file, s.func.dqual, "%s %s" % (mn, s.raw), "mnemonic not in the vendored base table")
                continue
            n += 1
            seen_mn.add(mn)
            fmtname = row["fmt"]
            F = ref["formats"][fmtname]
            fx, mk = s.model.fix_mask()
            rfx, rmk = ref_fix_mask(row)
            key = "%s::%s::%s" % (s.func.file, mn, s.raw)
            cons = "%s %s" % (mn, s.raw)
            m = s.model
            out.inst(key, {"isa": isa, "mnemonic": mn, "spec": s.raw, "format": fmtname, "fix": "%08x" % fx, "mask": "%08x" % mk, "ref_fix": "%08x" % rfx, "ref_mask": "%08x" % rmk} if n % 12 == 1 else None)
            if m.len != 32 or m.dir != "<" and False:
                if m.len != 32:
                    out.report(s.func.file, s.func.dqual, cons, s.line, "base instructions are 32 bits wide, spec LEN is %s" % m.len)
                    continue
            if (fx & rmk) != rfx or (mk & rmk) != rmk:
                out.report(s.func.file, s.func.dqual, cons, s.line, "fixed bits of the %s spec (fix=%08x mask=%08x) differ from the ISA manual's encoding of %s (opcode/funct fields: fix=%08x mask=%08x)" % (isa, fx, mk, mn, rfx, rmk))
                continue
            extra = mk & ~rmk
            if extra and fmtname != "fixed":
                out.report(s.func.file, s.func.dqual, cons, s.line, "the spec fixes bits %08x that the ISA leaves variable for %s (%s format): valid encodings are not decoded as %s" % (extra, mn, fmtname, mn))
            # register fields
            fields = {d.sym: d for d in m.fields()}
            for rname in F["regs"]:
                lo, hi = ref["fields"][rname]
                d = fields.get(rname)
                if d is None or d.bits != (lo, hi):
                    out.report(s.func.file, s.func.dqual, "%s field %s" % (cons, rname), s.line, "register field %s must be a directive at bits [%d:%d) (found %s)" % (rname, lo, hi, d.bits if d else "no such directive"))
            # immediate coverage
            immds = [d for d in m.fields() if d.sym.startswith("imm") or d.sym in ("shamt",)]
            got = set()
            for d in immds:
                if d.bits and d.bits[1] is not None:
                    got |= set(range(d.bits[0], d.bits[1]))
            want = set(F["imm"])
            if fmtname == "fixed":
                continue
            if got != want:
                out.report(s.func.file, s.func.dqual, "%s immediate bits" % cons, s.line, "immediate directives cover instruction bits %s, the %s format places the immediate in bits %s" % (_rng(got), fmtname, _rng(want)))
                continue
            # concatenation order in the hook
            if len(immds) > 1:
                order = _concat_order(s.func.node)
                if order is None:
                    out.undecide(s.func.file, s.func.dqual, cons, "immediate concatenation not recognised")
                else:
                    seq = []
                    ok = True
                    for nm in order:
                        d = fields.get(nm)
                        if d is None:
                            ok = False
                            break
                        seq += list(range(d.bits[0], d.bits[1]))
                    if not ok or seq != F["imm"]:
                        out.report(s.func.file, s.func.dqual, "%s immediate order %s" % (cons, " // ".join(order)), s.line, "the setup function assembles the immediate from instruction bits %s (LSB first); the %s format prescribes %s" % (seq, fmtname, F["imm"]))
            # scaling and sign
            src = norm(s.func.node)
            if F["imm_lsb"] and ("<< %d" % F["imm_lsb"]) not in src:
                out.report(s.func.file, s.func.dqual, "%s immediate scale" % cons, s.line, "the %s format's immediate starts at bit %d: the setup function must shift it left by %d" % (fmtname, F["imm_lsb"], F["imm_lsb"]))
            if F.get("signed") and mn not in ref["csr_like_unsigned_imm"] and ".int(-1)" not in src:
                out.report(s.func.file, s.func.dqual, "%s immediate sign" % cons, s.line, "the %s format's immediate is sign-extended; the setup function does not decode it as signed (.int(-1))" % fmtname)
        missing = sorted(set(table) - seen_mn)
        out.stats["%s_rows_without_spec" % isa] = missing
    out.stats["specs_checked"] = n
    if n < 90:
        raise AnalysisError("R-ISATAB: only %d RISC-V specs matched the table (>=90 expected)" % n)
    return out


def _rng(s):
    s = sorted(s)
    return "{%s}" % ",".join(map(str, s)) if len(s) < 6 else "{%d..%d (%d bits)}" % (s[0], s[-1], len(s))


def _concat_order(fn):
    """imm = a // b // c  (Bits concatenation, LSB first) -> ['a','b','c']"""
    for n in ast.walk(fn):
        if isinstance(n, ast.Assign) and isinstance(n.value, ast.BinOp) and isinstance(n.value.op, ast.FloorDiv):
            out = []

            def flat(e):
                if isinstance(e, ast.BinOp) and isinstance(e.op, ast.FloorDiv):
                    return flat(e.left) and flat(e.right)
                if isinstance(e, ast.Name):
                    out.append(e.id)
                    return True
                return False

            if flat(n.value):
                return out
    return None


# --------------------------------------------------------------------------------------- semantics
def effective_semantics(repo, asmmod, cpumod):
    """name -> FuncInfo for every i_* visible in the cpu module namespace (the definition in effect)"""
    cg = CallGraph(repo)
    cm = repo.modules.get(cpumod)
    if cm is None:
        raise AnalysisError("anchor vanished: %s" % cpumod)
    out = {}
    for name in sorted(repo.namespace(cpumod)):
        if name.startswith("i_"):
            t = cg.resolve_name(cm, name)
            if t is not None and not isinstance(t, tuple) and not hasattr(t, "methods"):
                out[name] = t
    # module-level aliases `i_X = i_Y` of the asm module name the same definition
    am = repo.modules.get(asmmod)
    if am is not None:
        alias = {}
        for n in am.tree.body:
            if isinstance(n, ast.Assign) and isinstance(n.value, ast.Name):
                for t in n.targets:
                    if isinstance(t, ast.Name) and t.id.startswith("i_"):
                        alias[t.id] = n.value.id
        for a in alias:
            b, hops = a, 0
            while b in alias and hops < 4:
                b, hops = alias[b], hops + 1
            if a not in out and b in out:
                out[a] = out[b]
    return out


def _npc_wrapper_name(repo, asmmod):
    """decorator whose wrapper advances pc then calls the wrapped function"""
    m = repo.modules[asmmod]
    for f in m.functions.values():
        if f.parent is None and f.cls is None:
            inner = [g for g in m.functions.values() if g.parent is f]
            for g in inner:
                src = norm(g.node)
                if "fmap[pc]" in src and "%s(" % f.params()[0] in src if f.params() else False:
                    return f.name
    return None


def _pc_stores(node_ast):
    return isinstance(node_ast, (ast.Assign, ast.AugAssign)) and any(norm(t) in ("fmap[pc]",) for t in (node_ast.targets if isinstance(node_ast, ast.Assign) else [node_ast.target]))


def _reads_pc(node_ast):
    for x in _walk_no_nested(node_ast):
        if isinstance(x, ast.Name) and x.id == "pc" and isinstance(x.ctx, ast.Load):
            # the store target fmap[pc] itself is not a read of the value
            return True
    return False


def _pc_interval(fnode, callee=None, callee_iv=(0, 0)):
    """(min, max) number of stores to fmap[pc] over the paths of fnode; a statement calling `callee` counts callee_iv"""
    cfg = CFG(fnode, may_raise=lambda x: False)

    def transfer(node, st, label):
        lo, hi = st
        if node.kind in ("stmt", "test", "return") and node.ast is not None:
            if node.kind == "stmt" and _pc_stores(node.ast):
                lo, hi = lo + 1, hi + 1
            if callee is not None:
                e = node.ast.test if node.kind == "test" else node.ast
                if any(isinstance(c, ast.Call) and isinstance(c.func, ast.Name) and c.func.id == callee for c in _walk_no_nested(e)):
                    lo, hi = lo + callee_iv[0], hi + callee_iv[1]
        return (lo, hi)

    ins = cfg.forward((0, 0), transfer, lambda a, b: (min(a[0], b[0]), max(a[1], b[1])))
    lo, hi = 10 ** 6, 0
    for nd in cfg.nodes:
        for succ, lab in cfg.succ[nd.id]:
            if succ is cfg.exit and nd.id in ins:
                a, b = transfer(nd, ins[nd.id], lab)
                lo, hi = min(lo, a), max(hi, b)
    return lo, hi


def _decorator_inner(repo, asmmod, dname):
    """(inner def node, name of the wrapped-function parameter) for a module-level `def dname(g): def w(..): ...; return w`"""
    m = repo.modules[asmmod]
    for f in m.functions.values():
        if f.parent is None and f.cls is None and f.name == dname and len(f.params()) == 1:
            inner = [s for s in f.node.body if isinstance(s, ast.FunctionDef)]
            rets = [s for s in f.node.body if isinstance(s, ast.Return) and isinstance(s.value, ast.Name)]
            if len(inner) == 1 and len(rets) == 1 and rets[0].value.id == inner[0].name:
                return inner[0], f.params()[0]
    return None


def r_pc(repo, tier):
    out = RuleOut(
        "R-PC",
        "RISC-V semantics: every i_XXX in effect advances pc exactly once on every path (through the __npc wrapper or by "
        "its own single store to fmap[pc]); a function wrapped by __npc never reads pc (it would see the next address), and "
        "an unwrapped function never reads pc after it has stored it",
    )
    n = 0
    for isa, (specmod, asmmod, cpumod) in RV.items():
        wrapper = _npc_wrapper_name(repo, asmmod)
        if wrapper is None:
            raise AnalysisError("R-PC: pc-advancing decorator not found in %s" % asmmod)
        sem = effective_semantics(repo, asmmod, cpumod)
        for name, f in sorted(sem.items()):
            if f.mod.name != asmmod:
                continue
            if getattr(repo, "inline_view", False):
                # second / third look: the store to fmap[pc] may live in a helper written after the review
                try:
                    f = repo.func(f.file, f.qual)
                except AnalysisError:
                    pass
            n += 1
            wrapped = any(isinstance(d, ast.Name) and d.id == wrapper for d in f.node.decorator_list)
            cfg = CFG(f.node, may_raise=lambda x: False)
            lo, hi = _pc_interval(f.node)
            # decorators are applied innermost first: each recognised wrapper adds its own stores around the call of the
            # function it wraps; an unrecognised decorator leaves the count undecided
            decided = True
            for d in reversed(f.node.decorator_list):
                di = _decorator_inner(repo, asmmod, d.id) if isinstance(d, ast.Name) else None
                if di is None:
                    decided = False
                    break
                lo, hi = _pc_interval(di[0], di[1], (lo, hi))
            expect = 1
            key = "%s::%s" % (f.key, isa)
            out.inst(key, {"isa": isa, "function": name, "wrapped_by": wrapper if wrapped else None, "pc_stores_min_max": [lo, hi]} if n % 15 == 1 else None)
            if not decided:
                out.undecide(f.file, f.dqual, "pc advance (%s)" % isa, "decorated by something that is not a module-level wrapper")
            elif (lo, hi) != (expect, expect):
                out.report(f.file, f.dqual, "pc advance (%s)" % isa, f.node.lineno, "%s %s: paths store fmap[pc] between %d and %d times (expected exactly %d): pc is advanced %s" % (name, "is wrapped by @%s" % wrapper if wrapped else "is not wrapped by @%s" % wrapper, lo, hi, expect, "twice or never on some path"))
            # pc reads
            if wrapped:
                for nd in cfg.nodes:
                    if nd.kind in ("stmt", "test", "return") and nd.ast is not None:
                        exprs = [nd.ast.test] if nd.kind == "test" else [nd.ast]
                        for e in exprs:
                            vals = [e.value] if isinstance(e, (ast.Assign, ast.AugAssign, ast.Return, ast.Expr)) and getattr(e, "value", None) is not None else [e]
                            if any(_reads_pc(v) for v in vals):
                                out.report(f.file, f.dqual, "reads pc after @%s (%s)" % (wrapper, isa), nd.line, "%s is wrapped by @%s, which has already advanced pc, and then reads pc: the value is the next instruction's address, but the manual defines the operation relative to the instruction's own address" % (name, wrapper))
                                break
            else:
                # read after own store
                stores = [nd for nd in cfg.nodes if nd.kind == "stmt" and _pc_stores(nd.ast)]
                for st in stores:
                    reach = cfg.reachable_from(st)
                    for nid in reach:
                        nd = cfg.nodes[nid]
                        if nd.kind == "stmt" and nd.ast is not None and not _pc_stores(nd.ast) and _reads_pc(nd.ast):
                            out.report(f.file, f.dqual, "reads pc after storing it (%s)" % isa, nd.line, "%s reads pc after it has assigned fmap[pc]" % name)
    out.stats["semantics"] = n
    if n < 50:
        raise AnalysisError("R-PC: only %d RISC-V semantics functions found" % n)
    return out


def r_signed(repo, tier):
    out = RuleOut(
        "R-SIGNED",
        "RISC-V semantics: for SLT/SLTI/BLT/BGE the ordered comparison is built on operands explicitly marked signed "
        "(.signed(), sf=True or a sign-flipping construction) -- registers are created unsigned and ordered comparison of "
        "constants honours sf, so an unmarked `<`/`>=` evaluates unsigned; for SLTU/SLTIU/BLTU/BGEU the comparison is "
        "OP_LTU/OP_GEU (ltu/geu) or on operands explicitly marked unsigned",
    )
    ref = load("riscv_base.json")
    n = 0
    for isa, (specmod, asmmod, cpumod) in RV.items():
        sem = effective_semantics(repo, asmmod, cpumod)
        for mn in ref["signed_ordered"] + ref["unsigned_ordered"]:
            f = sem.get("i_" + mn)
            if f is None:
                out.undecide(RV[isa][1], "i_" + mn, mn, "no semantics function")
                continue
            n += 1
            src = norm(f.node)
            cmps = [x for x in ast.walk(f.node) if isinstance(x, ast.Compare) and isinstance(x.ops[0], (ast.Lt, ast.GtE, ast.Gt, ast.LtE))]
            unsigned_ops = [x for x in ast.walk(f.node) if isinstance(x, ast.Call) and ((norm(x.func) == "oper" and x.args and norm(x.args[0]) in ("OP_LTU", "OP_GEU")) or norm(x.func) in ("ltu", "geu"))]
            marks_signed = ".signed()" in src or ".sf = True" in src or "sf=True" in src
            marks_unsigned = ".unsigned()" in src or ".sf = False" in src
            want_signed = mn in ref["signed_ordered"]
            out.inst("%s::%s" % (f.key, isa), {"isa": isa, "mnemonic": mn, "ordered_compares": [norm(c) for c in cmps], "unsigned_operator_calls": [norm(c)[:40] for c in unsigned_ops], "marks_signed": marks_signed})
            if want_signed:
                if unsigned_ops and not cmps:
                    out.report(f.file, "i_" + mn, "%s compares unsigned (%s)" % (mn, isa), f.node.lineno, "%s is a signed comparison in the manual but is implemented with the unsigned operator" % mn)
                elif cmps and not marks_signed:
                    out.report(f.file, "i_" + mn, "%s compares unmarked operands (%s)" % (mn, isa), cmps[0].lineno, "%s must compare signed, but builds `%s` on operands that are never marked signed (registers are unsigned by construction, so x1=-1 < x2=1 evaluates false)" % (mn, norm(cmps[0])))
                elif not cmps and not unsigned_ops:
                    out.undecide(f.file, "i_" + mn, mn, "no ordered comparison recognised")
            else:
                if cmps and not marks_unsigned and not unsigned_ops:
                    out.report(f.file, "i_" + mn, "%s compares with a sign-dependent operator (%s)" % (mn, isa), cmps[0].lineno, "%s must compare unsigned: use OP_LTU/OP_GEU or mark the operands unsigned" % mn)
                elif cmps and marks_signed:
                    out.report(f.file, "i_" + mn, "%s marks operands signed (%s)" % (mn, isa), cmps[0].lineno, "%s must compare unsigned but marks its operands signed" % mn)
                elif not cmps and not unsigned_ops:
                    out.undecide(f.file, "i_" + mn, mn, "no ordered comparison recognised")
    out.stats["functions"] = n
    if n < 8:
        raise AnalysisError("R-SIGNED: only %d ordered-comparison semantics found (16 expected)" % n)
    return out


def operand_kinds(repo, specmod, mnemonic):
    """per operand position: 'reg' | 'mem' | 'const' | '?' from the `obj.operands = [...]` of the setup functions of mnemonic"""
    decls, _ = specs(repo)
    kinds = None
    for s in decls:
        if s.func.mod.name != specmod or s.mnemonic != mnemonic:
            continue
        fn = s.func.node
        lst = None
        for n in ast.walk(fn):
            if isinstance(n, ast.Assign) and norm(n.targets[0]).endswith(".operands") and isinstance(n.value, ast.List):
                lst = n.value
        if lst is None:
            return None
        ks = []
        for e in lst.elts:
            txt = norm(e)
            if isinstance(e, ast.Name):
                for n in ast.walk(fn):
                    if isinstance(n, ast.Assign) and any(isinstance(t, ast.Name) and t.id == e.id for t in n.targets):
                        txt = norm(n.value)
            if ".mem(" in txt:
                ks.append("mem")
            elif ".cst(" in txt or txt.startswith("cst("):
                ks.append("const")
            elif "env.x[" in txt or "env.R[" in txt:
                ks.append("reg")
            else:
                ks.append("?")
        if kinds is None:
            kinds = ks
        elif kinds != ks:
            kinds = [a if a == b else "?" for a, b in zip(kinds, ks)] if len(kinds) == len(ks) else None
    return kinds


def r_raw(repo, tier):
    out = RuleOut(
        "R-RAW",
        "RISC-V semantics: rd may be the same register as rs1/rs2, so every evaluation fmap(<expr mentioning a source "
        "operand>) happens before the first store fmap[<destination operand>] = ... on every path (read-after-write hazard)",
    )
    n = 0
    for isa, (specmod, asmmod, cpumod) in RV.items():
        sem = effective_semantics(repo, asmmod, cpumod)
        for name, f in sorted(sem.items()):
            if f.mod.name != asmmod:
                continue
            if getattr(repo, "inline_view", False):
                # third look: a write / evaluation order hidden in a helper written after the review
                try:
                    f = repo.func(f.file, f.qual)
                except AnalysisError:
                    pass
            # operands unpacking: dst, src1, ... = ins.operands
            ops = None
            for s in f.node.body:
                if isinstance(s, ast.Assign) and isinstance(s.targets[0], ast.Tuple) and norm(s.value).endswith(".operands"):
                    ops = [e.id for e in s.targets[0].elts if isinstance(e, ast.Name)]
                    break
            if not ops or len(ops) < 2:
                continue
            n += 1
            cfg = CFG(f.node, may_raise=lambda x: False)
            # destination operands: names used as fmap[<name>] store targets
            dests = set()
            for nd in cfg.nodes:
                if nd.kind == "stmt" and isinstance(nd.ast, ast.Assign):
                    for t in nd.ast.targets:
                        if isinstance(t, ast.Subscript) and norm(t.value) == "fmap" and isinstance(t.slice, ast.Name) and t.slice.id in ops:
                            dests.add(t.slice.id)
            srcs = [o for o in ops if o not in dests]
            # immediates cannot alias rd: drop operands that every setup function building this mnemonic fills with a constant
            kinds = operand_kinds(repo, specmod, name[2:])
            if kinds is not None and len(kinds) == len(ops):
                srcs = [o for o, k in zip(ops, kinds) if o not in dests and k != "const"]
            # locals that hold an *unevaluated* expression over a source operand (`target = src1 + imm`) stand for it
            derived = set(srcs)
            for _ in range(3):
                for a_ in ast.walk(f.node):
                    if isinstance(a_, ast.Assign) and len(a_.targets) == 1 and isinstance(a_.targets[0], ast.Name) and a_.targets[0].id not in ops \
                            and ({x.id for x in ast.walk(a_.value) if isinstance(x, ast.Name)} & derived) \
                            and not any(isinstance(c_, ast.Call) and norm(c_.func) == "fmap" for c_ in ast.walk(a_.value)):
                        derived.add(a_.targets[0].id)
            bad = None
            for nd in cfg.nodes:
                if nd.kind == "stmt" and isinstance(nd.ast, ast.Assign) and any(isinstance(t, ast.Subscript) and norm(t.value) == "fmap" and isinstance(t.slice, ast.Name) and t.slice.id in dests for t in nd.ast.targets):
                    for nid in cfg.reachable_from(nd):
                        m = cfg.nodes[nid]
                        if m.ast is None or m.kind not in ("stmt", "test", "return"):
                            continue
                        for c in _walk_no_nested(m.ast.test if m.kind == "test" else m.ast):
                            if isinstance(c, ast.Call) and norm(c.func) == "fmap" and c.args:
                                used = {x.id for x in ast.walk(c.args[0]) if isinstance(x, ast.Name)} & derived
                                # memory operands are locations, not registers; only register-typed sources matter: all ops may be regs
                                if used:
                                    bad = (nd, m, sorted(used))
            out.inst("%s::%s" % (f.key, isa), {"isa": isa, "function": name, "dest": sorted(dests), "sources": srcs} if n % 20 == 1 else None)
            if bad:
                nd, m, used = bad
                out.report(f.file, f.dqual, "reads %s after writing %s (%s)" % (",".join(used), ",".join(sorted(dests)), isa), m.line, "%s evaluates source operand %s (line %d) after it has written the destination register (line %d); when rd is the same register as the source the new value is used" % (name, ",".join(used), m.line, nd.line))
    out.stats["functions"] = n
    if n < 30:
        raise AnalysisError("R-RAW: only %d semantics functions with unpacked operands" % n)
    return out


# --------------------------------------------------------------------------------------- x86 condition codes
def _cc_formula(e):
    """amoco flag expression AST -> python boolean expression text over of,cf,zf,sf,pf"""
    if isinstance(e, ast.BinOp) and isinstance(e.op, (ast.BitOr, ast.BitAnd)):
        a, b = _cc_formula(e.left), _cc_formula(e.right)
        if a is None or b is None:
            return None
        return "(%s %s %s)" % (a, "or" if isinstance(e.op, ast.BitOr) else "and", b)
    if isinstance(e, ast.Compare) and len(e.ops) == 1 and isinstance(e.ops[0], (ast.Eq, ast.NotEq)):
        def side(x):
            if isinstance(x, ast.Attribute) and x.attr in ("of", "cf", "zf", "sf", "pf"):
                return x.attr
            if isinstance(x, ast.Name) and x.id in ("of", "cf", "zf", "sf", "pf"):
                return x.id
            if isinstance(x, ast.Constant) and x.value in (0, 1):
                return str(x.value)
            return None
        a, b = side(e.left), side(e.comparators[0])
        if a is None or b is None:
            return None
        return "(%s %s %s)" % (a, "==" if isinstance(e.ops[0], ast.Eq) else "!=", b)
    if isinstance(e, ast.UnaryOp) and isinstance(e.op, ast.Invert):
        a = _cc_formula(e.operand)
        return None if a is None else "(not %s)" % a
    return None


def r_cctab(repo, tier):
    out = RuleOut(
        "R-CCTAB",
        "the x86 and x64 CONDITION_CODES dict literals, read as boolean formulas over the flag names, have for each of the "
        "16 condition codes the truth table of the Intel SDM condition (all 32 flag valuations enumerated)",
    )
    ref = load("x86_cc.json")["cc"]
    n = 0
    for rel in ("amoco/arch/x86/utils.py", "amoco/arch/x64/utils.py"):
        m = repo.mod(rel)
        tab = None
        for s in m.tree.body:
            if isinstance(s, ast.Assign) and norm(s.targets[0]) == "CONDITION_CODES" and isinstance(s.value, ast.Dict):
                tab = s.value
        if tab is None:
            raise AnalysisError("anchor vanished: CONDITION_CODES in %s" % rel)
        codes = set()
        for k, v in zip(tab.keys, tab.values):
            if not (isinstance(k, ast.Constant) and isinstance(v, ast.Tuple) and len(v.elts) == 2):
                out.undecide(rel, "<module>", norm(k), "row not recognised")
                continue
            code = k.value
            codes.add(code)
            n += 1
            f = _cc_formula(v.elts[1])
            out.inst("%s::cc%x" % (rel, code), {"file": rel, "code": code, "name": norm(v.elts[0]), "formula": f, "reference": ref[str(code)]})
            if f is None:
                out.undecide(rel, "<module>", "cc %x" % code, "formula not recognised: %s" % norm(v.elts[1]))
                continue
            bad = None
            for of, cf, zf, sf, pf in itertools.product((0, 1), repeat=5):
                env = {"of": of, "cf": cf, "zf": zf, "sf": sf, "pf": pf}
                if bool(eval(f, {}, env)) != bool(eval(ref[str(code)], {}, env)):
                    bad = env
                    break
            if bad:
                out.report(rel, "<module>", "CONDITION_CODES[%#x] %s" % (code, norm(v.elts[0])), k.lineno, "condition code %#x is %s in the table, the SDM defines it as `%s` (they differ e.g. for flags %s)" % (code, f, ref[str(code)], bad))
        for c in sorted(set(range(16)) - codes):
            out.report(rel, "<module>", "CONDITION_CODES lacks %#x" % c, tab.lineno, "condition code %#x has no row (KeyError for Jcc/SETcc/CMOVcc with that code)" % c)
    out.stats["rows"] = n
    if n < 32:
        raise AnalysisError("R-CCTAB: only %d rows" % n)
    return out


def r_store(repo, tier):
    out = RuleOut(
        "R-STORE",
        "RISC-V semantics: the store instructions of the ISA table (S format: SB/SH/SW/SD) write their memory operand on every "
        "path -- x0 as base register is an ordinary absolute address, so no guard on the base may skip the store; and loads "
        "(I format, opcode 0000011) write rd on every path where rd is not x0",
    )
    ref = load("riscv_base.json")
    n = 0
    for isa, (specmod, asmmod, cpumod) in RV.items():
        sem = effective_semantics(repo, asmmod, cpumod)
        for mn, row in sorted(ref[isa].items()):
            if row["fmt"] != "S":
                continue
            f = sem.get("i_" + mn)
            if f is None:
                out.undecide(RV[isa][1], "i_" + mn, mn, "no semantics function")
                continue
            n += 1
            ops = None
            for s in f.node.body:
                if isinstance(s, ast.Assign) and isinstance(s.targets[0], ast.Tuple) and norm(s.value).endswith(".operands"):
                    ops = [e.id for e in s.targets[0].elts if isinstance(e, ast.Name)]
            if not ops:
                out.undecide(f.file, f.dqual, mn, "operands not unpacked")
                continue
            dst = ops[0]
            cfg = CFG(f.node, may_raise=lambda x: False)
            stores = {nd.id for nd in cfg.nodes if nd.kind == "stmt" and isinstance(nd.ast, ast.Assign) and any(isinstance(t, ast.Subscript) and norm(t.value) == "fmap" and norm(t.slice) == dst for t in nd.ast.targets)}
            p = cfg.some_path(cfg.entry, {cfg.exit.id}, avoid=stores)
            out.inst("%s::%s" % (f.key, isa), {"isa": isa, "mnemonic": mn, "memory_operand": dst, "stores": len(stores), "unconditional": p is None})
            if p is not None:
                out.report(f.file, f.dqual, "%s may not store (%s)" % (mn, isa), f.node.lineno, "%s can return without writing its memory operand (path %s): the manual defines no case in which a store is dropped (base register x0 is address 0)" % (mn, cfg.describe_path(p)))
    out.stats["stores"] = n
    if n < 6:
        raise AnalysisError("R-STORE: only %d store semantics found (6 confirmed: SB/SH/SW x2; rv64i ships no i_SD)" % n)
    return out


# ======================================================================================= aux flag / arithmetic helper agreement
_MAIN = {"AddWithCarry": "halfcarry", "SubWithBorrow": "halfborrow"}


def r_auxflag(repo, tier):
    out = RuleOut(
        "R-AUXFLAG",
        "x86/x64 semantics: in a function that computes its result with AddWithCarry(A, B[, C]) resp. SubWithBorrow(A, B[, C]), "
        "every auxiliary-carry helper call is halfcarry resp. halfborrow with the very same argument list (same operands, and "
        "the carry-in exactly when the result uses it); the helpers themselves apply the same primitive to the low nibbles "
        "x[0:4], y[0:4] and forward the carry-in",
    )
    n = 0
    for rel in ("amoco/arch/x86/asm.py", "amoco/arch/x64/asm.py"):
        m = repo.mod(rel)
        for hn, prim in (("halfcarry", "AddWithCarry"), ("halfborrow", "SubWithBorrow")):
            h = m.functions.get(hn)
            if h is None:
                raise AnalysisError("anchor vanished: %s in %s" % (hn, rel))
            ps = h.params()
            calls = [c for c in ast.walk(h.node) if isinstance(c, ast.Call) and isinstance(c.func, ast.Name) and c.func.id in _MAIN]
            want = ["%s[0:4]" % ps[0], "%s[0:4]" % ps[1], ps[2]] if len(ps) >= 3 else None
            ok = len(calls) == 1 and calls[0].func.id == prim and want is not None and [norm(a) for a in calls[0].args] == want
            n += 1
            out.inst("%s::%s" % (rel, hn), {"helper": hn, "body_call": norm(calls[0]) if calls else None})
            if not ok:
                out.report(rel, hn, "helper body", h.node.lineno, "%s must be %s(%s) on the low nibbles with the carry-in forwarded" % (hn, prim, ", ".join(want or ["x[0:4]", "y[0:4]", "c"])))
        for f in m.functions.values():
            if f.name in _MAIN.values():
                continue
            mains = [c for c in _walk_no_nested(f.node) if isinstance(c, ast.Call) and isinstance(c.func, ast.Name) and c.func.id in _MAIN]
            aux = [c for c in _walk_no_nested(f.node) if isinstance(c, ast.Call) and isinstance(c.func, ast.Name) and c.func.id in _MAIN.values()]
            if not aux:
                continue
            if len({norm(c) for c in mains}) != 1:
                out.undecide(rel, f.dqual, "aux flag", "function has %d distinct arithmetic helper calls" % len({norm(c) for c in mains}))
                continue
            mc = mains[0]
            for a in aux:
                n += 1
                same_kind = a.func.id == _MAIN[mc.func.id]
                same_args = [norm(x) for x in a.args] == [norm(x) for x in mc.args] and not a.keywords and not mc.keywords
                out.inst("%s::%s::%s@%d" % (rel, f.dqual, norm(a), a.lineno), {"function": f.dqual, "result": norm(mc), "aux": norm(a)})
                if not same_kind:
                    out.report(rel, f.dqual, "aux %s vs %s" % (norm(a), norm(mc)), a.lineno, "the auxiliary flag is computed with %s but the result with %s" % (a.func.id, mc.func.id))
                elif not same_args:
                    out.report(rel, f.dqual, "aux %s vs %s" % (norm(a), norm(mc)), a.lineno, "the auxiliary carry is computed from (%s) but the result from (%s): operands / carry-in differ" % (", ".join(norm(x) for x in a.args), ", ".join(norm(x) for x in mc.args)))
    out.stats["sites"] = n
    if n < 20:
        raise AnalysisError("R-AUXFLAG: only %d sites" % n)
    return out


# ======================================================================================= size-indexed register tables
def env_reg_sizes(repo, rel):
    """name -> bit size for module-level `X = reg(name, N)` / `X = slc(base, pos, N, name)` bindings (star-imports followed)"""
    sizes = {}
    seen = set()

    def visit(modrel):
        if modrel in seen:
            return
        seen.add(modrel)
        try:
            m = repo.mod(modrel)
        except AnalysisError:
            return
        for s in ast.walk(m.tree):
            if isinstance(s, ast.Assign) and len(s.targets) == 1 and isinstance(s.targets[0], ast.Name) and isinstance(s.value, ast.Call) and isinstance(s.value.func, ast.Name):
                fn, a = s.value.func.id, s.value.args
                if fn == "reg" and len(a) >= 2 and isinstance(a[1], ast.Constant) and isinstance(a[1].value, int):
                    sizes.setdefault(s.targets[0].id, a[1].value)
                elif fn == "slc" and len(a) >= 3 and isinstance(a[2], ast.Constant) and isinstance(a[2].value, int):
                    sizes.setdefault(s.targets[0].id, a[2].value)
        for s in m.tree.body:
            if isinstance(s, ast.ImportFrom) and s.module and any(al.name == "*" for al in s.names):
                modname = s.module
                if s.level:
                    base = m.name.split(".")[: -s.level]
                    modname = ".".join(base + [s.module])
                visit(modname.replace(".", "/") + ".py")

    visit(rel)
    return sizes


def r_sizetab(repo, tier):
    out = RuleOut(
        "R-SIZETAB",
        "x86/x64: a dict literal indexed by an operand size ({8: ..., 16: ..., 32: ...}[x.size]) maps every size to registers of "
        "exactly that size (sizes read from the reg(name, n) / slc(base, pos, n, name) definitions of the env module)",
    )
    n = 0
    for arch, envrel in (("x86", "amoco/arch/x86/env.py"), ("x64", "amoco/arch/x64/env.py")):
        sizes = env_reg_sizes(repo, envrel)
        if sizes.get("al") != 8 or sizes.get("eax") != 32:
            raise AnalysisError("R-SIZETAB: register sizes of %s not recovered (al=%s eax=%s)" % (envrel, sizes.get("al"), sizes.get("eax")))
        for rel in ("amoco/arch/%s/asm.py" % arch, "amoco/arch/%s/utils.py" % arch):
            m = repo.mod(rel)
            for f in m.functions.values():
                for d in _walk_no_nested(f.node):
                    if not (isinstance(d, ast.Subscript) and isinstance(d.value, ast.Dict) and ".size" in norm(d.slice)):
                        continue
                    for k, v in zip(d.value.keys, d.value.values):
                        if not (isinstance(k, ast.Constant) and isinstance(k.value, int)):
                            continue
                        regs = v.elts if isinstance(v, ast.Tuple) else [v]
                        for pos, r in enumerate(regs):
                            if not isinstance(r, ast.Name) or r.id not in sizes:
                                continue
                            n += 1
                            out.inst("%s::%s::%d:%s" % (rel, f.dqual, k.value, r.id), {"function": f.dqual, "size": k.value, "register": r.id, "register_size": sizes[r.id]})
                            # the (lo, hi) pair of the 8-bit MUL/DIV row is (al, ah): both 8 bits -- same rule
                            if sizes[r.id] != k.value:
                                out.report(rel, f.dqual, "size table %d -> %s" % (k.value, r.id), r.lineno, "the row for %d-bit operands selects register %s which is %d bits wide (indexed by %s)" % (k.value, r.id, sizes[r.id], norm(d.slice)))
    out.stats["rows"] = n
    if n < 30:
        raise AnalysisError("R-SIZETAB: only %d table rows resolved" % n)
    return out


# ======================================================================================= direction flag steps
def r_dfstep(repo, tier):
    out = RuleOut(
        "R-DFSTEP",
        "x86/x64 string instructions: every pointer update selected by the direction flag has the shape "
        "tst(<df>, P - K, P + K): the same pointer and the same step on both sides, decrement when DF is set (Intel SDM: the index "
        "registers are incremented when DF=0 and decremented when DF=1 by the operand size)",
    )
    n = 0
    for rel in ("amoco/arch/x86/asm.py", "amoco/arch/x64/asm.py"):
        m = repo.mod(rel)
        for f in m.functions.values():
            for c in ast.walk(f.node):
                if not (isinstance(c, ast.Call) and isinstance(c.func, ast.Name) and c.func.id == "tst" and len(c.args) == 3):
                    continue
                if not any(isinstance(k, ast.Name) and k.id == "df" for k in ast.walk(c.args[0])):
                    continue
                n += 1
                a, b = c.args[1], c.args[2]
                shape = isinstance(a, ast.BinOp) and isinstance(b, ast.BinOp) and isinstance(a.op, (ast.Sub, ast.Add)) and isinstance(b.op, (ast.Sub, ast.Add))
                out.inst("%s::%s@%d" % (f.key, norm(c)[:60], c.lineno), {"function": f.dqual, "update": norm(c)[:90]})
                if not shape:
                    out.undecide(rel, f.dqual, norm(c)[:80], "direction-flag selection is not of the form tst(df, P - K, P + K)")
                    continue
                if not (isinstance(a.op, ast.Sub) and isinstance(b.op, ast.Add)):
                    out.report(rel, f.dqual, "df step %s" % norm(c)[:80], c.lineno, "with DF set the pointer must be decremented and with DF clear incremented; here `%s` / `%s`" % (norm(a), norm(b)))
                elif norm(a.left) != norm(b.left):
                    out.report(rel, f.dqual, "df step %s" % norm(c)[:80], c.lineno, "the two directions update different pointers (`%s` / `%s`)" % (norm(a.left), norm(b.left)))
                elif norm(a.right) != norm(b.right):
                    out.report(rel, f.dqual, "df step %s" % norm(c)[:80], c.lineno, "the backward step `%s` differs from the forward step `%s`: both directions move by the operand size" % (norm(a.right), norm(b.right)))
    out.stats["updates"] = n
    if n < 14:
        raise AnalysisError("R-DFSTEP: only %d direction-flag updates found" % n)
    return out


# ======================================================================================= RV32I / RV64I sibling semantics
def r_rvsibling(repo, tier):
    out = RuleOut(
        "R-RVSIB",
        "the RV32I and RV64I semantic modules implement the same base instructions: every function defined in both "
        "arch/riscv/rv32i/asm.py and arch/riscv/rv64i/asm.py has the same body up to the register width constant (32 <-> 64); "
        "when the two have the same statement structure (same statements, same stored locations) a differing expression means "
        "one of the two siblings is wrong (the base ISA manual defines them by one text parametrised by XLEN); restructured "
        "siblings are listed as undecided",
    )
    a = repo.mod("amoco/arch/riscv/rv32i/asm.py")
    b = repo.mod("amoco/arch/riscv/rv64i/asm.py")

    class W(ast.NodeTransformer):
        def visit_Constant(self, n):
            if isinstance(n.value, int) and not isinstance(n.value, bool) and n.value == 64:
                return ast.copy_location(ast.Constant(value=32), n)
            return n

    import copy

    def dump(f):
        t = W().visit(copy.deepcopy(f.node))
        t.decorator_list = []
        return [norm(s) for s in t.body if not (isinstance(s, ast.Expr) and isinstance(s.value, ast.Constant) and isinstance(s.value.value, str))]

    n = 0
    # redefinitions: compare the effective (last) definition of each name
    def last(m):
        d = {}
        for f in m.functions.values():
            if f.cls is None and "." not in f.dqual:
                if f.dqual not in d or f.node.lineno > d[f.dqual].node.lineno:
                    d[f.dqual] = f
        return d

    fa, fb = last(a), last(b)
    for name in sorted(set(fa) & set(fb)):
        da, db = dump(fa[name]), dump(fb[name])
        n += 1
        same = da == db
        out.inst("rv::%s" % name, {"function": name, "agree": same} if not same or len(out.samples) < 2 else None)
        if not same and (len(da) != len(db) or any(x.split("=")[0].split("(")[0] != y.split("=")[0].split("(")[0] for x, y in zip(da, db))):
            # one sibling was restructured (statements added / removed / other targets): not comparable statement by statement
            out.undecide(b.rel, name, "sibling %s" % name, "rv32i and rv64i versions have different statement structure; not compared")
            continue
        if not same:
            k = next((i for i in range(min(len(da), len(db))) if da[i] != db[i]), min(len(da), len(db)))
            la = da[k] if k < len(da) else "<end>"
            lb = db[k] if k < len(db) else "<end>"
            out.report(b.rel, name, "sibling %s" % name, fb[name].node.lineno, "rv32i and rv64i %s differ beyond the width constant: rv32i has `%s` where rv64i has `%s` (rv32i/asm.py:%d, rv64i/asm.py:%d)" % (name, la[:80], lb[:80], fa[name].node.lineno, fb[name].node.lineno))
    out.stats["pairs"] = n
    if n < 30:
        raise AnalysisError("R-RVSIB: only %d common functions" % n)
    return out


# ======================================================================================= x86 / x64 sibling functions
X86_PAIRS = {
    "amoco/arch/x86/asm.py": ("amoco/arch/x64/asm.py", ["C06"]),
    "amoco/arch/x86/spec_ia32.py": ("amoco/arch/x64/spec_ia32e.py", ["C05", "C07"]),
    "amoco/arch/x86/spec_fpu.py": ("amoco/arch/x64/spec_fpu.py", ["C05", "C07"]),
    "amoco/arch/x86/utils.py": ("amoco/arch/x64/utils.py", ["C05", "C07"]),
    "amoco/arch/x86/formats.py": ("amoco/arch/x64/formats.py", ["C17"]),
}
_REN64 = {"rip": "eip", "rsp": "esp", "rbp": "ebp", "rax": "eax", "rbx": "ebx", "rcx": "ecx", "rdx": "edx", "rsi": "esi", "rdi": "edi"}


def sibling_dump(f, rename):
    import copy

    class R(ast.NodeTransformer):
        def visit_Name(self, n):
            return ast.copy_location(ast.Name(id=rename.get(n.id, n.id), ctx=n.ctx), n)

    t = R().visit(copy.deepcopy(f.node))
    return [norm(s) for s in t.body if not (isinstance(s, ast.Expr) and isinstance(s.value, ast.Constant) and isinstance(s.value.value, str))]


def single_defs(m):
    d, dup = {}, set()
    for f in m.functions.values():
        if "<locals>" in f.dqual or "<lambda>" in f.dqual:
            continue
        if f.dqual in d:
            dup.add(f.dqual)
        d[f.dqual] = f
    return {k: v for k, v in d.items() if k not in dup}


def r_x86sibling(pid):
    def rule(repo, tier):
        out = RuleOut(
            "R-X86SIB",
            "the x86 and x64 packages carry sibling copies of many functions.  For every pair recorded in ref/x86_siblings.json -- "
            "functions that were identical up to the names of the 64-bit registers on the reviewed tree -- the two bodies are still "
            "identical up to that renaming whenever they have the same statement structure: a change applied to one sibling only "
            "(same statements, one different expression) is reported; a restructured sibling is listed as undecided",
        )
        with open(os.path.join(VERIF, "ref", "x86_siblings.json")) as fh:
            table = json.load(fh)["pairs"]
        n = 0
        for rel32, (rel64, pids) in X86_PAIRS.items():
            if pid not in pids:
                continue
            a, b = single_defs(repo.mod(rel32)), single_defs(repo.mod(rel64))
            for name in table.get(rel32, []):
                if name not in a or name not in b:
                    out.undecide(rel64, name, "sibling %s" % name, "one of the siblings is gone or re-defined")
                    continue
                da, db = sibling_dump(a[name], {}), sibling_dump(b[name], _REN64)
                n += 1
                if da == db:
                    out.inst("%s::%s" % (rel32, name), None)
                    continue
                heads = lambda L: [x.split("=")[0].split("(")[0].strip() for x in L]
                if len(da) != len(db) or heads(da) != heads(db):
                    out.inst("%s::%s" % (rel32, name), {"function": name, "status": "restructured"}, nontrivial=False)
                    out.undecide(rel64, name, "sibling %s" % name, "x86 and x64 versions no longer have the same statement structure; not compared")
                    continue
                k = next(i for i in range(len(da)) if da[i] != db[i])
                out.inst("%s::%s" % (rel32, name), {"function": name, "status": "diverged", "x86": da[k][:80], "x64": db[k][:80]})
                out.report(rel64, name, "sibling %s" % name, b[name].node.lineno, "%s was identical in x86 and x64 (up to register names) and now differs in one statement: x86 has `%s`, x64 has `%s` (%s:%d, %s:%d) -- a change was applied to one sibling only" % (name, da[k][:90], db[k][:90], rel32, a[name].node.lineno, rel64, b[name].node.lineno))
        out.stats["pairs"] = n
        if n < 5:
            raise AnalysisError("R-X86SIB: only %d recorded sibling pairs found for %s" % (n, pid))
        return out

    rule.__name__ = "r_x86sibling_%s" % pid
    return rule
