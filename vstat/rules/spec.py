"""R-FMT, R-SIG, R-MAXLEN, R-DUPFMT: rules over the @ispec tables."""
import ast

from ..harness import RuleOut
from ..index import AnalysisError, norm
from ..ispecmodel import collect_specs, cpu_table

_CACHE = {}


def specs(repo):
    if id(repo) not in _CACHE:
        _CACHE[id(repo)] = collect_specs(repo)
    return _CACHE[id(repo)]


def r_fmt(repo, tier):
    out = RuleOut(
        "R-FMT",
        "every shipped ispec format is a well-formed sentence of the documented language "
        "(LEN positive multiple of 8; directive widths sum to LEN; '=' overlaps lie inside bits already read; "
        "at most one (*) and nothing after it; no symbol declared twice in one destination; at least one fixed bit)",
    )
    decls, unfolded = specs(repo)
    for f, d, why in unfolded:
        out.undecide(f.file, f.dqual, norm(d.args[0]) if d.args else "?", why)
    for s in decls:
        key = "%s::%s::%s" % (s.func.file, s.func.dqual, s.raw)
        if s.model is None:
            out.inst(key)
            out.report(s.func.file, s.func.dqual, "@%s(%r)" % (s.cls, s.raw), s.line, "format does not parse: %s" % s.err)
            continue
        errs = s.model.wellformed()
        m = s.model
        out.inst(
            key,
            {
                "spec": s.raw,
                "hook": s.func.dqual,
                "len": m.len,
                "dir": m.dir,
                "fixedbits": m.fixedbits,
                "fields": [(d_.opt + d_.sym, d_.width, d_.bits) for d_ in m.fields()],
            },
            nontrivial=True,
        )
        for e in errs:
            out.report(s.func.file, s.func.dqual, "@%s(%r)" % (s.cls, s.raw), s.line, e)
    out.stats["specs"] = len(decls)
    out.stats["spec_modules"] = len({s.func.mod.name for s in decls})
    out.floor(5000, "ispec decorators")
    if out.stats["spec_modules"] < 29:
        raise AnalysisError("R-FMT: only %d spec modules found (29 confirmed)" % out.stats["spec_modules"])
    return out


def r_sig(repo, tier):
    out = RuleOut(
        "R-SIG",
        "the keyword arguments a spec delivers (non-'.' directive symbols + '_name=' decorator kwargs, minus __obj) "
        "match the setup function's signature: hook has a parameter named obj, every required parameter is delivered, "
        "nothing is delivered that the hook cannot take",
    )
    decls, _ = specs(repo)
    for s in decls:
        if s.model is None:
            continue
        a = s.func.node.args
        params = [x.arg for x in a.posonlyargs + a.args]
        ndef = len(a.defaults)
        required = set(params[: len(params) - ndef]) if ndef else set(params)
        kwonly = [x.arg for x in a.kwonlyargs]
        for x, dflt in zip(a.kwonlyargs, a.kw_defaults):
            if dflt is None:
                required.add(x.arg)
        allp = set(params) | set(kwonly)
        delivered = s.delivered() | {"obj"}
        key = "%s::%s::%s" % (s.func.file, s.func.dqual, s.raw)
        out.inst(key, {"spec": s.raw, "hook": s.func.dqual, "delivered": sorted(delivered - {"obj"}), "required": sorted(required - {"obj"})})
        if "obj" not in allp or any(x.arg == "obj" for x in a.posonlyargs):
            out.report(s.func.file, s.func.dqual, "def %s(%s)" % (s.func.name, ", ".join(params)), s.func.node.lineno, "hook is called with obj=<instruction> but has no keyword-capable parameter named obj")
        for p in sorted(required - delivered):
            out.report(
                s.func.file,
                s.func.dqual,
                "missing %s <- @%s(%r)" % (p, s.cls, s.raw),
                s.line,
                "setup function requires parameter %r that the specification does not deliver (TypeError on every matching word)" % p,
            )
        if a.kwarg is None:
            for p in sorted(delivered - allp):
                out.report(
                    s.func.file,
                    s.func.dqual,
                    "unknown %s <- @%s(%r)" % (p, s.cls, s.raw),
                    s.line,
                    "specification delivers %r which the setup function does not accept (TypeError on every matching word)" % p,
                )
    out.floor(5000, "ispec decorators")
    return out


def r_maxlen(repo, tier):
    out = RuleOut(
        "R-MAXLEN",
        "a cpu module whose spec modules contain a '*'-length or '&' (suffix) spec assigns disassemble.maxlen explicitly "
        "(the computed default covers only the fixed part of the longest spec)",
    )
    decls, _ = specs(repo)
    varmods = {}
    for s in decls:
        if s.model and (s.model.len == "*" or s.model.xdata):
            varmods.setdefault(s.func.mod.name, []).append(s)
    # closure: spec module star-importing nothing; but x86 spec_ia32 imports spec_sse? follow ISPECS extension
    ext = spec_includes(repo)
    cpus = cpu_table(repo)
    if len(cpus) < 25:
        raise AnalysisError("R-MAXLEN: only %d disassembler instances found (25 confirmed)" % len(cpus))
    nvar = 0
    for cname, ent in sorted(cpus.items()):
        mods = set()
        for sm in ent["specmods"]:
            if sm is None:
                out.undecide(repo.modules[cname].rel, "<module>", "disassembler(...)", "spec module not resolved")
                continue
            mods.add(sm)
            mods |= ext.get(sm, set())
        var = sorted(mm for mm in mods if mm in varmods)
        out.inst(cname, {"cpu": cname, "specmods": sorted(mods), "variable": var, "maxlen": ent["maxlen"]}, nontrivial=bool(var))
        if var:
            nvar += 1
            fixedmax = 0
            for s in decls:
                if s.func.mod.name in mods and s.model:
                    fixedmax = max(fixedmax, s.model.size // 8)
            if ent["maxlen"] is None:
                out.report(
                    repo.modules[cname].rel,
                    "<module>",
                    "disassemble.maxlen",
                    ent["line"],
                    "variable-length specs in %s but disassemble.maxlen is not set explicitly (default covers %d bytes)" % (",".join(var), fixedmax),
                )
            elif isinstance(ent["maxlen"], int) and ent["maxlen"] < fixedmax:
                out.report(
                    repo.modules[cname].rel, "<module>", "disassemble.maxlen", ent["line"], "explicit maxlen %d is smaller than the longest fixed part %d" % (ent["maxlen"], fixedmax)
                )
    out.stats["cpus"] = len(cpus)
    out.stats["variable_cpus"] = nvar
    if nvar < 5:
        raise AnalysisError("R-MAXLEN: only %d cpu modules with variable-length specs (5 confirmed)" % nvar)
    return out


def spec_includes(repo):
    """spec module -> other spec modules whose ISPECS it appends (ISPECS += other.ISPECS / import)."""
    ext = {}
    for m in repo.modules.values():
        if not m.name.startswith("amoco.arch."):
            continue
        for n in ast.walk(m.tree):
            if isinstance(n, ast.AugAssign) and isinstance(n.target, ast.Name) and n.target.id == "ISPECS":
                for a in ast.walk(n.value):
                    if isinstance(a, ast.Attribute) and a.attr == "ISPECS" and isinstance(a.value, ast.Name):
                        r = repo.lookup(m.name, a.value.id)
                        if r and r[1][0] == "module":
                            ext.setdefault(m.name, set()).add(r[1][1])
    # transitive
    changed = True
    while changed:
        changed = False
        for k, v in list(ext.items()):
            for x in list(v):
                for y in ext.get(x, ()):
                    if y not in v:
                        v.add(y)
                        changed = True
    return ext


def pickle_identity(repo):
    """which attributes of a spec does ispec.__setstate__ use to find the hook again in module.ISPECS?
    read from the test of the lookup loop: `h.format == self.format` -> 'format'; `h.hook.__name__` -> 'hookname'."""
    f = repo.func("amoco/arch/core.py", "ispec.__setstate__")
    g = repo.func("amoco/arch/core.py", "ispec.__getstate__")
    ident, loop = [], None
    for n in ast.walk(f.node):
        if isinstance(n, ast.For) and norm(n.iter).endswith(".ISPECS") and isinstance(n.target, ast.Name):
            loop = n
    tests = None
    if loop is None:
        # the same search written as a comprehension / generator: `(h for h in m.ISPECS if <tests>)`
        for n in ast.walk(f.node):
            if isinstance(n, ast.comprehension) and norm(n.iter).endswith(".ISPECS") and isinstance(n.target, ast.Name) and n.ifs:
                loop, tests = n, [norm(t) for t in n.ifs]
    if loop is None:
        raise AnalysisError("R-DUPFMT: ispec.__setstate__ has no lookup loop over <module>.ISPECS")
    h = loop.target.id
    if tests is None:
        tests = [norm(n.test) for n in ast.walk(loop) if isinstance(n, ast.If)]
    txt = " ".join(tests)
    if "%s.format" % h in txt:
        ident.append("format")
    if "%s.hook.__name__" % h in txt:
        ident.append("hookname")
    stored = {n.slice.value for n in ast.walk(g.node) if isinstance(n, ast.Subscript) and isinstance(n.ctx, ast.Store) and isinstance(n.slice, ast.Constant)}
    for n in ast.walk(g.node):
        if isinstance(n, ast.Dict):
            stored |= {k.value for k in n.keys if isinstance(k, ast.Constant)}
        elif isinstance(n, ast.Call) and isinstance(n.func, ast.Name) and n.func.id == "dict":
            stored |= {k.arg for k in n.keywords if k.arg}
    return f, g, ident, stored, tests


def r_dupfmt(repo, tier):
    out = RuleOut(
        "R-DUPFMT",
        "ispec.__setstate__ finds the setup function of an unpickled spec again by the identity it tests in its lookup loop over "
        "<module>.ISPECS (read from the code: format string, and hook name when tested); __getstate__ stores every part of that identity; "
        "inside one spec module no two specs with the same identity are attached to setup functions of different names "
        "(else a pickled instruction is restored with another spec's hook, and the formatter key i.spec.hook.__name__ changes)",
    )
    f, g, ident, stored, tests = pickle_identity(repo)
    out.inst(f.key, {"identity": ident, "stored_by_getstate": sorted(stored), "lookup_tests": tests})
    if "format" not in ident:
        out.report(f.file, f.dqual, "lookup identity", f.node.lineno, "the lookup loop does not compare the format string")
    need = {"format": "format", "hookname": "hook"}
    for k in ident:
        if need[k] not in stored:
            out.report(g.file, g.dqual, "state key %r" % need[k], g.node.lineno, "__setstate__ identifies the spec by %s but __getstate__ does not store %r" % (k, need[k]))
    if "module" not in stored:
        out.report(g.file, g.dqual, "state key 'module'", g.node.lineno, "__getstate__ does not store the module of the hook")
    decls, _ = specs(repo)
    by = {}
    for s in decls:
        k = (s.func.mod.name, s.format) + ((s.func.name,) if "hookname" in ident else ())
        by.setdefault(k, []).append(s)
    for k, lst in sorted(by.items()):
        out.inst("::".join(k), None, nontrivial=len(lst) > 1)
        # what a restored stub spec is used for afterwards is its hook *name* (the Formatter's table key): two specs
        # that share the lookup identity must at least agree on that name
        funcs = {s.func.name for s in lst}
        if len(funcs) > 1:
            s = lst[-1]
            out.report(s.func.file, "<module>", "dup %r" % (k[1],), s.line, "lookup identity %s shared by setup functions of different names %s" % (ident, sorted(funcs)))
    return out


def r_decode(repo, tier):
    """structural obligations on ispec.decode itself (the interpreter half of C03 / C05 that is visible in code shape)"""
    from ..cfg import CFG

    out = RuleOut(
        "R-DECODE",
        "ispec.decode: (1) the byte length of the fixed part is derived from the fix/mask width (self.fix.size // 8 or "
        "self.mask.size // 8); (2) a raising length test of the input against that same bound dominates the slice that takes "
        "the fixed part; (3) the fixed-bit test compares (bits & mask) with fix and raises DecodeError; (4) for variable-length "
        "specs the tail handed to the directives is the whole rest of the input: an open slice starting at that same bound; "
        "(5) the instruction's bytes are set from the very slice that was matched",
    )
    f = repo.func("amoco/arch/core.py", "ispec.decode")
    fn = f.node
    istr = f.params()[1] if len(f.params()) > 1 else None
    if istr is None:
        raise AnalysisError("R-DECODE: ispec.decode has no input parameter")
    # (1) bound variable
    bound = None
    for n in ast.walk(fn):
        if isinstance(n, ast.Assign) and isinstance(n.targets[0], ast.Name) and norm(n.value) in ("self.fix.size // 8", "self.mask.size // 8"):
            bound = n.targets[0].id
    out.inst(f.key + "::bound", {"fixed_part_bytes": bound})
    # the bound may be written by name or by its defining expression (temporaries are a matter of style)
    BOUND = {bound, "self.fix.size // 8", "self.mask.size // 8"} if bound else {"self.fix.size // 8", "self.mask.size // 8"}
    if bound is None:
        # a byte length taken from something else (LEN is 0 for variable-length specs) is wrong; no recognisable length at all is undecided
        other = [n for n in ast.walk(fn) if isinstance(n, ast.Assign) and isinstance(n.targets[0], ast.Name) and norm(n.value).endswith(".size // 8")]
        if other:
            out.report(f.file, f.dqual, "fixed part length", other[0].lineno, "the byte length of the fixed part is computed as `%s`, not from self.fix.size // 8 (variable-length specs have self.size == 0, so LEN cannot be used)" % norm(other[0].value))
            return out
        if not any(norm(x) in BOUND for x in ast.walk(fn) if isinstance(x, ast.BinOp)):
            out.undecide(f.file, f.dqual, "fixed part length", "no expression self.fix.size // 8 found: the way the fixed part is measured is not recognised")
            return out
        bound = "self.fix.size // 8"
    cfg = CFG(fn, may_raise=lambda x: False)
    # (2) guard
    guards = []
    for nd in cfg.nodes:
        if nd.kind == "test" and isinstance(nd.ast, ast.If) and nd.ast.body and isinstance(nd.ast.body[-1], ast.Raise):
            t = nd.ast.test
            if isinstance(t, ast.Compare) and len(t.ops) == 1 and isinstance(t.ops[0], ast.Lt) and norm(t.left) == "len(%s)" % istr and norm(t.comparators[0]) in BOUND:
                guards.append(nd)
    slices = []
    for nd in cfg.nodes:
        if nd.kind == "stmt" and isinstance(nd.ast, ast.Assign) and isinstance(nd.ast.value, ast.Subscript) and norm(nd.ast.value.value) == istr and isinstance(nd.ast.value.slice, ast.Slice):
            sl = nd.ast.value.slice
            if sl.upper is not None and norm(sl.upper) in BOUND and (sl.lower is None or norm(sl.lower) == "0"):
                slices.append(nd)
    out.inst(f.key + "::guard", {"length_tests": [norm(g.ast.test) for g in guards], "fixed_part_slices": [norm(s.ast) for s in slices]})
    if not slices:
        out.undecide(f.file, f.dqual, "fixed part slice", "no assignment `x = %s[0:%s]` found: the way the fixed part is taken is not recognised" % (istr, bound))
    for s in slices:
        reach = cfg.reachable_from(cfg.entry, avoid={g.id for g in guards})
        if not guards or s.id in reach:
            out.report(f.file, f.dqual, "length test of %s against %s" % (istr, bound), s.line, "the slice %s is not dominated by `if len(%s) < %s: raise DecodeError`: an input shorter than the fixed part is zero-extended and can match" % (norm(s.ast.value), istr, bound))
    # (3) fixed-bit test
    ok3 = False
    for nd in cfg.nodes:
        if nd.kind == "test" and isinstance(nd.ast, ast.If) and nd.ast.body and isinstance(nd.ast.body[-1], ast.Raise):
            t = norm(nd.ast.test)
            if "self.mask" in t and "self.fix" in t and "!=" in t and "&" in t:
                ok3 = True
    out.inst(f.key + "::fixbits", {"fixed_bit_test": ok3})
    if not ok3:
        out.report(f.file, f.dqual, "fixed-bit test", fn.lineno, "no test `bits & self.mask != self.fix` that raises DecodeError")
    # (4) tail
    tails = []
    for n in ast.walk(fn):
        if isinstance(n, ast.If) and norm(n.test) == "self.size == 0":
            for x in ast.walk(ast.Module(body=n.body, type_ignores=[])):
                if isinstance(x, ast.Subscript) and norm(x.value) == istr and isinstance(x.slice, ast.Slice):
                    tails.append(x)
    if not tails:
        # early-return style: `if self.size != 0: return ...` followed by the tail -- every slice of the input other than the
        # fixed-part slices is a tail slice
        fixed = {id(s_.ast.value) for s_ in slices}
        for x in ast.walk(fn):
            if isinstance(x, ast.Subscript) and norm(x.value) == istr and isinstance(x.slice, ast.Slice) and id(x) not in fixed and not (x.slice.upper is not None and norm(x.slice.upper) in BOUND and (x.slice.lower is None or norm(x.slice.lower) == "0")):
                tails.append(x)
    out.inst(f.key + "::tail", {"tail_slices": [norm(t) for t in tails]})
    if not tails:
        out.report(f.file, f.dqual, "variable tail", fn.lineno, "variable-length specs (self.size == 0) do not receive the rest of the input")
    for t in tails:
        if t.slice.upper is not None or t.slice.lower is None or norm(t.slice.lower) not in BOUND:
            out.report(f.file, f.dqual, "variable tail %s" % norm(t), t.lineno, "the variable tail must be all remaining input `%s[%s:]` (documented: '(*) ... all remaining bits from the instruction buffer'); %s truncates or shifts it" % (istr, bound, norm(t)))
    # (5) bytes from the matched slice
    if slices:
        bs = slices[0].ast.targets[0].id if isinstance(slices[0].ast.targets[0], ast.Name) else None
        uses = [norm(n) for n in ast.walk(fn) if (isinstance(n, ast.Call) and norm(n.func) == "iclass" and n.args and norm(n.args[0]) == bs) or (isinstance(n, ast.AugAssign) and norm(n.target).endswith(".bytes") and norm(n.value) == bs)]
        out.inst(f.key + "::bytes", {"matched_slice": bs, "recorded_by": uses})
        if len(uses) < 2 and any("__ret" in norm(x) for x in ast.walk(fn) if isinstance(x, ast.Name)):
            out.undecide(f.file, f.dqual, "instruction bytes", "the matched slice is handed over through a helper's return value; its use for the instruction bytes is not traced")
        elif len(uses) < 2:
            out.report(f.file, f.dqual, "instruction bytes", fn.lineno, "the instruction's bytes are not set from the matched slice %s on both the new-instruction and the pending-prefix path" % bs)
    return out


# ======================================================================================= field width vs register table length
def _table_len(v):
    """static length of a module-level table expression: list/tuple literal, [.. for x in range(..)], [..]*N"""
    if isinstance(v, (ast.List, ast.Tuple)) and not any(isinstance(e, ast.Starred) for e in v.elts):
        return len(v.elts)
    if isinstance(v, ast.ListComp) and len(v.generators) == 1 and not v.generators[0].ifs:
        it = v.generators[0].iter
        if isinstance(it, ast.Call) and isinstance(it.func, ast.Name) and it.func.id == "range" and all(isinstance(a, ast.Constant) and isinstance(a.value, int) for a in it.args) and not it.keywords:
            return len(range(*[a.value for a in it.args]))
        if isinstance(it, (ast.List, ast.Tuple)):
            return len(it.elts)
        if isinstance(it, ast.Constant) and isinstance(it.value, str):
            return len(it.value)
    if isinstance(v, ast.BinOp) and isinstance(v.op, ast.Mult):
        for a, b in ((v.left, v.right), (v.right, v.left)):
            if isinstance(a, (ast.List, ast.Tuple)) and isinstance(b, ast.Constant) and isinstance(b.value, int):
                return len(a.elts) * b.value
    return None


def _resolve_table(repo, mod, expr):
    """(defining module, name, length) for `env.X` / `X` when X is a module-level table that is assigned once and never
    grown (no X.append / X += / X[..] = anywhere in its module)"""
    if isinstance(expr, ast.Attribute) and isinstance(expr.value, ast.Name):
        r = repo.lookup(mod.name, expr.value.id)
        if not r or r[0] is None or r[1][0] != "module":
            return None
        tm, name = r[0], expr.attr
    elif isinstance(expr, ast.Name):
        tm, name = mod, expr.id
    else:
        return None
    r = repo.lookup(tm.name, name)
    if not r or r[0] is None or r[1][0] != "assign":
        return None
    dm = r[0]
    assigns = [d for d in dm.bindings.get(name, []) if d[0] == "assign"]
    if len(dm.bindings.get(name, [])) != 1 or len(assigns) != 1:
        return None
    node = assigns[0][1]
    val = getattr(node, "value", None)
    if val is None:
        return None
    n = _table_len(val)
    if n is None:
        return None
    for x in ast.walk(dm.tree):
        if isinstance(x, ast.Call) and isinstance(x.func, ast.Attribute) and isinstance(x.func.value, ast.Name) and x.func.value.id == name and x.func.attr in ("append", "extend", "insert", "pop", "remove"):
            return None
        if isinstance(x, ast.AugAssign) and isinstance(x.target, ast.Name) and x.target.id == name:
            return None
    return dm, name, n


def r_boundidx(repo, tier):
    out = RuleOut(
        "R-BOUNDIDX",
        "a setup function that indexes a fixed-length register table of its env module directly with a field delivered by its spec "
        "(`env.T[f]`, f a parameter that is never re-assigned nor range-tested in the function) is attached only to specs whose "
        "field f is at most log2(len(T)) bits wide: every decodable value of the field is a valid index (else IndexError escapes "
        "the disassembler, which only catches DecodeError/InstructionError)",
    )
    decls, _ = specs(repo)
    byfunc = {}
    for s in decls:
        if s.model is not None:
            byfunc.setdefault(s.func.key, []).append(s)
    nsites = 0
    for key, lst in sorted(byfunc.items()):
        f = lst[0].func
        params = set(f.params())
        rebound = set()
        tested = set()
        for n in ast.walk(f.node):
            if isinstance(n, ast.Name) and isinstance(n.ctx, ast.Store):
                rebound.add(n.id)
            elif isinstance(n, ast.AugAssign) and isinstance(n.target, ast.Name):
                rebound.add(n.target.id)
            elif isinstance(n, ast.Compare):
                tested |= {x.id for x in ast.walk(n) if isinstance(x, ast.Name)}
            elif isinstance(n, (ast.If, ast.IfExp, ast.While, ast.Assert)):
                tested |= {x.id for x in ast.walk(n.test) if isinstance(x, ast.Name)}
        handlers = set()
        for n in ast.walk(f.node):
            if isinstance(n, ast.Try):
                for h in n.handlers:
                    handlers |= {"*"} if h.type is None else {norm(e) for e in (h.type.elts if isinstance(h.type, ast.Tuple) else [h.type])}
        for n in ast.walk(f.node):
            if not (isinstance(n, ast.Subscript) and isinstance(n.slice, ast.Name) and isinstance(n.ctx, ast.Load)):
                continue
            p = n.slice.id
            if p not in params or p in rebound:
                continue
            tab = _resolve_table(repo, f.mod, n.value)
            if tab is None:
                continue
            dm, tname, tlen = tab
            for s in lst:
                ws = [d.width for d in s.model.fields() if d.sym == p and d.opt != "."]
                if not ws or not isinstance(ws[0], int):
                    continue
                w = ws[0]
                nsites += 1
                ok = (1 << w) <= tlen
                out.inst("%s::%s[%s]::%s" % (f.key, tname, p, s.raw), {"hook": f.dqual, "table": "%s.%s" % (dm.name, tname), "length": tlen, "field": p, "width": w, "spec": s.raw}, nontrivial=True)
                if ok:
                    continue
                if p in tested or handlers & {"*", "Exception", "IndexError", "LookupError"}:
                    out.undecide(f.file, f.dqual, "%s[%s] <- %s" % (tname, p, s.raw), "field is range-tested or the lookup error is handled in the function")
                    continue
                out.report(f.file, f.dqual, "%s[%s] <- @%s(%r)" % (tname, p, s.cls, s.raw), s.line, "field %s is %d bits wide (values 0..%d) and indexes %s.%s which has %d entries: values >= %d raise IndexError out of the disassembler" % (p, w, (1 << w) - 1, dm.name, tname, tlen, tlen))
    out.stats["sites"] = nsites
    out.floor(300, "field-indexed table lookups")
    return out
