"""Rules over amoco/cas/expressions.py: R-ALGTAB, R-WIDTH (C01, C12), R-OPPURE, R-SIZEIMM, R-SLOTSTATE (C12, C13)."""
import ast
import json
import os

from .. import VERIF
from ..cfg import CFG, _walk_no_nested
from ..harness import RuleOut
from ..index import AnalysisError, norm

EXPR = "amoco/cas/expressions.py"
REF = os.path.join(VERIF, "ref", "bv_identities.json")


def load_ref():
    with open(REF) as fh:
        return json.load(fh)


def op_constants(m):
    """OP_XXX = "sym" module-level constants"""
    out = {}
    for s in m.tree.body:
        if isinstance(s, ast.Assign) and len(s.targets) == 1 and isinstance(s.targets[0], ast.Name) and s.targets[0].id.startswith("OP_") and isinstance(s.value, ast.Constant) and isinstance(s.value.value, str):
            out[s.targets[0].id] = s.value.value
    if len(out) < 20:
        raise AnalysisError("only %d OP_ symbol constants found in expressions.py" % len(out))
    return out


def op_tables(m, consts):
    """OP_ARITH/LOGIC/CONDT/SHIFT dict literals: table -> {symbol: implementation text}"""
    tabs = {}
    for s in m.tree.body:
        if isinstance(s, ast.Assign) and len(s.targets) == 1 and isinstance(s.targets[0], ast.Name) and s.targets[0].id in ("OP_ARITH", "OP_LOGIC", "OP_CONDT", "OP_SHIFT") and isinstance(s.value, ast.Dict):
            d = {}
            for k, v in zip(s.value.keys, s.value.values):
                if isinstance(k, ast.Name) and k.id in consts:
                    d[consts[k.id]] = norm(v)
                else:
                    raise AnalysisError("unrecognised key in %s" % s.targets[0].id)
            tabs[s.targets[0].id] = d
    if set(tabs) != {"OP_ARITH", "OP_LOGIC", "OP_CONDT", "OP_SHIFT"}:
        raise AnalysisError("operator tables missing: %s" % sorted(tabs))
    return tabs


# -------------------------------------------------------------------------------- guarded returns
class GReturn:
    def __init__(self, node, guards, mutated):
        self.node = node
        self.guards = guards  # list of (test ast, polarity)
        self.mutated = mutated  # an `e.<attr> = ` store occurs between the innermost guard and the return


def guarded_returns(fnode, subject):
    """all Return nodes of fnode with the stack of enclosing if-tests (polarity True for body, False for orelse)."""
    out = []

    def walk(stmts, guards):
        stores = False
        for s in stmts:
            if isinstance(s, ast.Return):
                out.append(GReturn(s, list(guards), stores))
            elif isinstance(s, ast.If):
                walk(s.body, guards + [(s.test, True)])
                walk(s.orelse, guards + [(s.test, False)])
            elif isinstance(s, (ast.For, ast.While)):
                walk(s.body, guards + [(None, True)])
            elif isinstance(s, ast.Try):
                walk(s.body, guards)
                for h in s.handlers:
                    walk(h.body, guards + [(None, True)])
            else:
                for n in ast.walk(s):
                    if isinstance(n, ast.Attribute) and isinstance(n.ctx, ast.Store):
                        r = n
                        while isinstance(r, ast.Attribute):
                            r = r.value
                        if isinstance(r, ast.Name) and r.id == subject:
                            stores = True

    walk(fnode.body, [])
    return out


def conj(test):
    """split a test into conjuncts"""
    if isinstance(test, ast.BoolOp) and isinstance(test.op, ast.And):
        out = []
        for v in test.values:
            out += conj(v)
        return out
    return [test]


class Facts:
    """positive facts known at a return, from the enclosing guards"""

    def __init__(self, gr, consts, subject):
        self.ops = None  # set of symbols the operator is restricted to (None = unrestricted)
        self.rvalue = None  # e.r.value == k
        self.r_is_cst = False
        self.samestr = False  # "%s" % e.l == "%s" % e.r
        self.rsize1 = False
        self.l_is_eqn = False
        self.other = []
        self.unknown_loop = False
        e = subject
        for test, pol in gr.guards:
            if test is None:
                self.unknown_loop = True
                continue
            if not pol:
                # negated test: only usable when it is a single `op.symbol` membership (ignored) -> no positive fact
                continue
            for c in conj(test):
                t = norm(c)
                if t == "%s.r._is_cst" % e:
                    self.r_is_cst = True
                elif t == "%s.l._is_eqn" % e:
                    self.l_is_eqn = True
                elif t == "%s.r.size == 1" % e:
                    self.rsize1 = True
                elif t in ("'%%s' %% %s.l == '%%s' %% %s.r" % (e, e), "'%%s' %% (%s.l) == '%%s' %% (%s.r)" % (e, e)):
                    self.samestr = True
                elif isinstance(c, ast.Compare) and len(c.ops) == 1 and norm(c.left) == "%s.r.value" % e and isinstance(c.ops[0], ast.Eq) and isinstance(c.comparators[0], ast.Constant):
                    self.rvalue = c.comparators[0].value
                elif isinstance(c, ast.Compare) and len(c.ops) == 1 and norm(c.left) == "%s.op.symbol" % e:
                    rhs = c.comparators[0]
                    syms = None
                    if isinstance(c.ops[0], ast.In) and isinstance(rhs, (ast.Tuple, ast.List, ast.Set)):
                        syms = set()
                        for x in rhs.elts:
                            if isinstance(x, ast.Name) and x.id in consts:
                                syms.add(consts[x.id])
                            else:
                                syms = None
                                break
                    elif isinstance(c.ops[0], ast.In) and isinstance(rhs, ast.Name) and rhs.id in consts:
                        # `in (OP_LSL)` without a comma is a substring test on the symbol string
                        syms = {s for s in consts.values() if s in consts[rhs.id]}
                    elif isinstance(c.ops[0], ast.Eq) and isinstance(rhs, ast.Name) and rhs.id in consts:
                        syms = {consts[rhs.id]}
                    if syms is not None:
                        self.ops = syms if self.ops is None else (self.ops & syms)
                    else:
                        self.other.append(t)
                else:
                    self.other.append(t)


def classify_return(v, subject):
    """what a rewrite returns: ('operand','l'|'r'|...), ('zero',), ('bit',0|1), ('not','l'), ('ifexp', k, a, b), ('other',)"""
    e = subject
    if v is None:
        return ("other",)
    t = norm(v)
    if t in ("%s.l" % e, "%s.r" % e, "%s.r.r" % e, "%s.l.l" % e):
        return ("operand", t[len(e) + 1 :])
    if t == "cst(0, %s.size)" % e:
        return ("zero",)
    # a literal as wide as an operand: cst(K, e.l.size) / cst(K, e.r.size) / top(e.l.size) behaves like returning the operand
    if isinstance(v, ast.Call) and isinstance(v.func, ast.Name) and v.func.id in ("cst", "top") and v.args:
        w = norm(v.args[-1]) if v.func.id == "cst" and len(v.args) >= 2 else norm(v.args[0]) if v.func.id == "top" else None
        if w in ("%s.l.size" % e, "%s.r.size" % e):
            zero = v.func.id == "cst" and isinstance(v.args[0], ast.Constant) and v.args[0].value == 0
            # the value reads as zero / a literal for the identity tables, the width as the operand's for R-WIDTH
            return ("zero", "opwidth") if zero else ("literal", "opwidth")
    if t == "bit0":
        return ("bit", 0)
    if t == "bit1":
        return ("bit", 1)
    if t in ("~%s.l" % e, "~(%s.l)" % e):
        return ("not", "l")
    if t == "%s" % e:
        return ("self",)
    if isinstance(v, ast.IfExp):
        c = v.test
        if isinstance(c, ast.Compare) and len(c.ops) == 1 and isinstance(c.ops[0], ast.Eq) and norm(c.left) == "%s.r.value" % e and isinstance(c.comparators[0], ast.Constant):
            return ("ifexp", c.comparators[0].value, classify_return(v.body, subject), classify_return(v.orelse, subject))
    return ("other",)


def width_classes(repo, consts, tabs):
    """operators whose result width differs from the operand width, read from op.__init__ / _operator.__init__"""
    m = repo.mod(EXPR)
    init = repo.func(EXPR, "op.__init__").node
    txt = norm(init)
    cmp_ops = set(tabs["OP_CONDT"])
    # confirm `prop == 4 -> size = 1`
    ok1 = "if self.prop == 4: self.size = 1" in txt.replace("\n", " ")
    dbl = set()
    for n in ast.walk(init):
        if isinstance(n, ast.If):
            for c in ast.walk(n.test):
                if isinstance(c, ast.Compare) and norm(c.left) == "self.op.symbol" and isinstance(c.ops[0], ast.In) and isinstance(c.comparators[0], (ast.List, ast.Tuple)):
                    if any(isinstance(s, ast.AugAssign) and norm(s.target) == "self.size" and isinstance(s.op, ast.Mult) for s in n.body):
                        for x in c.comparators[0].elts:
                            if isinstance(x, ast.Name) and x.id in consts:
                                dbl.add(consts[x.id])
    # _operator.__init__: type 4 <=> op in OP_CONDT
    oi = repo.func(EXPR, "_operator.__init__").node
    ok2 = False
    for n in ast.walk(oi):
        if isinstance(n, ast.If) and norm(n.test) == "op in OP_CONDT":
            if any(isinstance(s, ast.Assign) and norm(s.targets[0]) == "self.type" and norm(s.value) == "4" for s in n.body):
                ok2 = True
    if not dbl or not ok2:
        raise AnalysisError("cannot read the width-changing operator classes from op.__init__/_operator.__init__ (dbl=%s cmp=%s)" % (dbl, ok2))
    return cmp_ops, dbl


REWRITE_FUNCS = (("eqn2_helpers", "e"), ("eqn1_helpers", "e"))


def r_algtab(repo, tier):
    out = RuleOut(
        "R-ALGTAB",
        "the algebraic content of the rewrite tables of cas/expressions.py is a subset of a reference table of fixed-width "
        "bit-vector identities: (a) guarded returns `x op k -> x / 0`, `x op x -> ...`, 1-bit `==/!=` rewrites of eqn2_helpers; "
        "(b) the comparison-negation dict; (c) sign composition of nested +/-; (d) operator symbol -> OP_* table -> "
        "operator.<fn> round trip and the Python operator used inside the matching cst.__dunder__; (e) operators declared "
        "unsigned never get sf=True from their implementation",
    )
    ref = load_ref()
    m = repo.mod(EXPR)
    consts = op_constants(m)
    tabs = op_tables(m, consts)
    n_rules = 0
    # ---------------- (a) guarded returns
    f = repo.func(EXPR, "eqn2_helpers")
    grs = guarded_returns(f.node, "e")
    for gr in grs:
        fx = Facts(gr, consts, "e")
        cls = classify_return(gr.node.value, "e")
        line = gr.node.lineno
        desc = None
        allowed = None
        if fx.r_is_cst and fx.rvalue in (0, 1) and fx.ops is not None and cls[0] in ("operand", "zero") and not fx.samestr:
            cls = ("zero",) if cls[0] == "zero" else cls
            if cls == ("operand", "l"):
                allowed = set(ref["right_identity_%d" % fx.rvalue])
                desc = "x op %d -> x" % fx.rvalue
            elif cls == ("zero",) and fx.rvalue == 0:
                allowed = set(ref["right_annihilator_0"])
                desc = "x op 0 -> 0"
            elif cls == ("zero",) and fx.rvalue == 1:
                allowed = set()
                desc = "x op 1 -> 0"
            else:
                allowed = set()
                desc = "x op %d -> %s" % (fx.rvalue, cls)
        elif fx.samestr and fx.ops is not None:
            key = {("bit", 0): "x_op_x_false", ("bit", 1): "x_op_x_true", ("zero",): "x_op_x_zero", ("operand", "l"): "x_op_x_x", ("operand", "r"): "x_op_x_x"}.get(cls)
            desc = "x op x -> %s" % (cls,)
            allowed = set(ref[key]) if key else set()
        elif fx.rsize1 and fx.ops is not None and fx.ops <= {"==", "!="} and cls[0] in ("ifexp", "operand", "not"):
            # 1-bit compare: b == 1 -> b ; b == 0 -> ~b ; b != 1 -> ~b ; b != 0 -> b
            for sym in sorted(fx.ops):
                n_rules += 1
                tbl = ref["bit_compare"][sym]
                if cls[0] == "ifexp":
                    got = {str(cls[1]): cls[2], "other": cls[3]}
                    want1 = tbl["1"]
                    want0 = tbl["0"]
                    k = cls[1]
                    got_k = cls[2]
                    got_nk = cls[3]
                    def name(c):
                        return {("operand", "l"): "b", ("not", "l"): "~b"}.get(c, str(c))
                    r1 = name(got_k) if k == 1 else name(got_nk)
                    r0 = name(got_nk) if k == 1 else name(got_k)
                    out.inst("%s::bitcmp %s" % (f.key, sym), {"rule": "(b %s bit1) -> %s ; (b %s bit0) -> %s" % (sym, r1, sym, r0), "line": line, "reference": tbl})
                    if r1 != want1 or r0 != want0:
                        out.report(f.file, f.dqual, "(b %s bit) rewrite: 1->%s 0->%s" % (sym, r1, r0), line, "1-bit compare rewrite is not an identity: (b %s 1) must be %s and (b %s 0) must be %s" % (sym, want1, sym, want0))
                else:
                    out.undecide(f.file, f.dqual, norm(gr.node), "1-bit compare rewrite not in conditional-expression form")
            continue
        else:
            continue
        n_rules += 1
        if gr.mutated or fx.unknown_loop:
            out.undecide(f.file, f.dqual, norm(gr.node), "expression mutated between guard and return")
            continue
        out.inst("%s::%s %s" % (f.key, desc, sorted(fx.ops)), {"rule": desc, "ops": sorted(fx.ops), "line": line, "allowed": sorted(allowed)})
        for sym in sorted(fx.ops - allowed):
            out.report(f.file, f.dqual, "%s for op %s" % (desc, sym), line, "rewrite `%s` is applied to operator %r, for which it is not a bit-vector identity (reference: %s)" % (desc, sym, sorted(allowed)))
    # ---------------- (b) comparison negation table
    f1 = repo.func(EXPR, "eqn1_helpers")
    notop = None
    for n in ast.walk(f1.node):
        if isinstance(n, ast.Assign) and norm(n.targets[0]) == "notop" and isinstance(n.value, ast.Subscript) and isinstance(n.value.value, ast.Dict):
            notop = n.value.value
    if notop is None:
        # the table may live at module level and be indexed from eqn1_helpers: a dict literal whose keys and values are all
        # comparison operator constants and that eqn1_helpers subscripts / .get()s
        used = {x.value.id for x in ast.walk(f1.node) if isinstance(x, ast.Subscript) and isinstance(x.value, ast.Name)} | {x.func.value.id for x in ast.walk(f1.node) if isinstance(x, ast.Call) and isinstance(x.func, ast.Attribute) and x.func.attr == "get" and isinstance(x.func.value, ast.Name)}
        for st in m.tree.body:
            if isinstance(st, ast.Assign) and isinstance(st.targets[0], ast.Name) and st.targets[0].id in used and isinstance(st.value, ast.Dict) and st.value.keys and all(norm(k) in consts and norm(v) in consts for k, v in zip(st.value.keys, st.value.values)):
                notop = st.value
    if notop is None:
        raise AnalysisError("comparison-negation dict `notop` not found in eqn1_helpers")
    for k, v in zip(notop.keys, notop.values):
        a, b = consts.get(norm(k)), consts.get(norm(v))
        n_rules += 1
        out.inst("%s::notop %s" % (f1.key, a), {"rule": "~(x %s y) -> (x %s y)" % (a, b), "reference": ref["negation"].get(a)})
        if ref["negation"].get(a) != b:
            out.report(f1.file, f1.dqual, "notop %s -> %s" % (a, b), k.lineno, "negation of comparison %r is %r, not %r" % (a, ref["negation"].get(a), b))
    missing = set(ref["negation"]) - {consts.get(norm(k)) for k in notop.keys}
    # notop is indexed by every type-4 operator: a missing row is a KeyError
    for a in sorted(set(tabs["OP_CONDT"]) - {consts.get(norm(k)) for k in notop.keys}):
        out.report(f1.file, f1.dqual, "notop lacks %s" % a, notop.lineno, "comparison %r has no negation row (KeyError when ~(x %s y) is simplified)" % (a, a))
    # ---------------- (c) sign composition
    fm = repo.func(EXPR, "_operator.__mul__")
    comp = {}
    for n in ast.walk(fm.node):
        if isinstance(n, ast.If) and isinstance(n.test, ast.Compare) and isinstance(n.test.ops[0], ast.In) and isinstance(n.test.comparators[0], (ast.Tuple, ast.List)):
            ret = [s for s in n.body if isinstance(s, ast.Return)]
            if ret and isinstance(ret[0].value, ast.Name) and ret[0].value.id in consts:
                for x in n.test.comparators[0].elts:
                    if isinstance(x, ast.Constant):
                        comp[x.value] = consts[ret[0].value.id]
    for k, v in sorted(comp.items()):
        n_rules += 1
        out.inst("%s::%s" % (fm.key, k), {"rule": "sign composition %s -> %s" % (k, v), "reference": ref["sign_composition"].get(k)})
        if ref["sign_composition"].get(k) != v:
            out.report(fm.file, fm.dqual, "compose %s -> %s" % (k, v), fm.node.lineno, "nested signs %r compose to %r, not %r" % (k, ref["sign_composition"].get(k), v))
    if len(comp) < 4:
        raise AnalysisError("sign composition table not recognised in _operator.__mul__")
    # ---------------- (d) round trip
    dunder2sym = {}
    expc = m.classes["exp"]
    for name, meth in expc.methods.items():
        for n in ast.walk(meth.node):
            if isinstance(n, ast.Return) and isinstance(n.value, ast.Call) and norm(n.value.func) == "oper" and n.value.args and isinstance(n.value.args[0], ast.Name) and n.value.args[0].id in consts:
                # reflected variants swap operands: oper(OP, n, self)
                args = [norm(a) for a in n.value.args[1:]]
                dunder2sym.setdefault(name, []).append((consts[n.value.args[0].id], args, n.lineno))
    impl = {}
    for t in tabs.values():
        impl.update(t)
    for name, lst in sorted(dunder2sym.items()):
        for sym, args, line in lst:
            want = ref["dunder_symbol"].get(name)
            if want is None:
                continue
            n_rules += 1
            out.inst("exp.%s" % name, {"rule": "exp.%s builds operator %r implemented by %s" % (name, sym, impl.get(sym)), "reference": want})
            if sym != want["symbol"]:
                out.report(EXPR, "exp.%s" % name, "oper(%s)" % sym, line, "exp.%s builds operator %r, the documented operator for this Python operator is %r" % (name, sym, want["symbol"]))
            if name.startswith("__r") and name not in ("__rshift__",) and args != ["n", "self"]:
                out.report(EXPR, "exp.%s" % name, "operands %s" % args, line, "reflected operator must build (n op self)")
            if not name.startswith("__r") or name == "__rshift__":
                if args and args != ["self", "n"] and args != ["self"]:
                    out.report(EXPR, "exp.%s" % name, "operands %s" % args, line, "operator must build (self op n)")
            if sym in impl and impl[sym] != want["impl"]:
                out.report(EXPR, "<module>", "OP table %s -> %s" % (sym, impl[sym]), line, "operator %r is implemented by %s; the implementation consistent with exp.%s is %s" % (sym, impl[sym], name, want["impl"]))
    # table rows vs reference implementation names (all symbols)
    for sym, fn in sorted(impl.items()):
        n_rules += 1
        want = ref["symbol_impl"].get(sym)
        out.inst("OP::%s" % sym, {"rule": "symbol %r -> %s" % (sym, fn), "reference": want})
        if want is not None and fn != want:
            out.report(EXPR, "<module>", "OP table %s -> %s" % (sym, fn), 0, "operator %r must be implemented by %s (found %s)" % (sym, want, fn))
    # cst dunders use the matching Python operator on the values
    cstc = m.classes["cst"]
    for name, pyop in ref["cst_python_operator"].items():
        meth = cstc.methods.get(name)
        if meth is None:
            continue
        n_rules += 1
        found = set()
        for n in ast.walk(meth.node):
            if isinstance(n, ast.Return) and isinstance(n.value, ast.Call) and norm(n.value.func) == "cst" and n.value.args:
                a0 = n.value.args[0]
                if isinstance(a0, ast.BinOp):
                    found.add(type(a0.op).__name__)
                elif isinstance(a0, ast.Compare):
                    found.add(type(a0.ops[0]).__name__)
                elif isinstance(a0, ast.UnaryOp):
                    found.add(type(a0.op).__name__)
        out.inst("cst.%s" % name, {"rule": "cst.%s folds with Python %s" % (name, sorted(found)), "reference": pyop})
        if found and found != {pyop}:
            out.report(EXPR, "cst.%s" % name, "folds with %s" % sorted(found), meth.node.lineno, "constant folding of %s uses Python operator %s, expected %s" % (name, sorted(found), pyop))
    # ---------------- (f) shift saturation: a constant fold may short-cut an oversized shift to 0 only for << and >>
    for name in ("__lshift__", "__rshift__", "__floordiv__"):
        meth = cstc.methods.get(name)
        if meth is None:
            continue
        for n in ast.walk(meth.node):
            if isinstance(n, ast.Return) and isinstance(n.value, ast.Call) and norm(n.value.func) == "cst" and n.value.args and isinstance(n.value.args[0], ast.Constant):
                n_rules += 1
                lit = n.value.args[0].value
                okz = name in ref["shift_saturates_to_zero"] and lit == 0
                out.inst("cst.%s::literal" % name, {"rule": "cst.%s returns the literal %r" % (name, lit), "allowed": okz})
                if not okz:
                    out.report(EXPR, "cst.%s" % name, "literal result %r" % lit, n.lineno, "cst.%s short-cuts to the literal %r; an arithmetic shift right by >= width yields the sign fill (0 or -1), only << and >> saturate to 0" % (name, lit))
    # ---------------- (e) unsigned belief
    oi = repo.func(EXPR, "_operator.__init__").node
    unsigned_syms = set()
    for n in ast.walk(oi):
        if isinstance(n, ast.If):
            sets_unsigned = any(isinstance(s, ast.Assign) and norm(s.targets[0]) == "self.unsigned" and norm(s.value) == "True" for s in n.body)
            if sets_unsigned:
                t = n.test
                if norm(t).startswith("op in OP_") and norm(t)[6:] in tabs:
                    unsigned_syms |= set(tabs[norm(t)[6:]])
                elif isinstance(t, ast.Compare) and isinstance(t.ops[0], ast.In) and isinstance(t.comparators[0], (ast.Tuple, ast.List)):
                    for x in t.comparators[0].elts:
                        if isinstance(x, ast.Name) and x.id in consts:
                            unsigned_syms.add(consts[x.id])
    for sym in sorted(unsigned_syms):
        fn = impl.get(sym)
        if fn is None or fn.startswith("operator."):
            continue
        hf = m.functions.get(fn)
        if hf is None:
            continue
        n_rules += 1
        params = set(hf.params())
        bad = []
        for n in ast.walk(hf.node):
            if isinstance(n, ast.Assign) and isinstance(n.value, ast.Constant) and n.value.value is True:
                for t in n.targets:
                    if isinstance(t, ast.Attribute) and t.attr == "sf" and isinstance(t.value, ast.Name) and t.value.id in params:
                        bad.append(n)
            if isinstance(n, ast.Call) and isinstance(n.func, ast.Attribute) and n.func.attr == "signed" and isinstance(n.func.value, ast.Name) and n.func.value.id in params:
                bad.append(n)
        out.inst("unsigned::%s" % sym, {"rule": "operator %r is declared unsigned; implementation %s never marks its operands signed" % (sym, fn), "violations": len(bad)})
        for n in bad:
            out.report(EXPR, hf.dqual, norm(n), n.lineno, "operator %r is declared unsigned in _operator.__init__ but its implementation %s marks its operands signed (the ordered comparison is then evaluated on signed values)" % (sym, fn))
    out.stats["rules"] = n_rules
    if n_rules < 60:
        raise AnalysisError("R-ALGTAB: only %d table rows recognised (>=60 expected)" % n_rules)
    return out


def r_width(repo, tier):
    out = RuleOut(
        "R-WIDTH",
        "a rewrite never returns an operand (width = operand width) or a 1-bit literal in place of a node of different "
        "width: in eqn1_helpers/eqn2_helpers a `return e.l|e.r|...` is not reachable under an operator guard admitting a "
        "comparison (result width 1) or a widening multiply (2x), and a `return bit0|bit1` only under comparison operators; "
        "width classes are read from op.__init__/_operator.__init__",
    )
    m = repo.mod(EXPR)
    consts = op_constants(m)
    tabs = op_tables(m, consts)
    cmp_ops, dbl = width_classes(repo, consts, tabs)
    allops = set()
    for t in tabs.values():
        allops |= set(t)
    n = 0
    for fname, subj in REWRITE_FUNCS:
        f = repo.func(EXPR, fname)
        for gr in guarded_returns(f.node, subj):
            cls = classify_return(gr.node.value, subj)
            if cls in (("zero", "opwidth"), ("literal", "opwidth")):
                cls = ("operand", "width")
            if cls[0] not in ("operand", "bit", "not", "ifexp"):
                continue
            fx = Facts(gr, consts, subj)
            n += 1
            key = "%s::%s@%s" % (f.key, norm(gr.node), sorted(fx.ops) if fx.ops is not None else "any")
            if fname == "eqn1_helpers":
                # unary operators preserve width
                out.inst(key, {"return": norm(gr.node), "ops": "unary (width preserving)"}, nontrivial=False)
                continue
            if fx.ops is None:
                # no operator guard: the 1-bit compare rewrite is guarded by e.r.size == 1; vec/ptr paths return non-operands
                if fx.rsize1:
                    out.inst(key, {"return": norm(gr.node), "ops": "guarded by e.r.size == 1"})
                else:
                    out.undecide(f.file, f.dqual, norm(gr.node), "operand returned without an operator guard")
                continue
            kinds = [cls] if cls[0] != "ifexp" else [cls[2], cls[3]]
            out.inst(key, {"return": norm(gr.node), "ops": sorted(fx.ops), "line": gr.node.lineno})
            for c in kinds:
                if c[0] in ("operand", "not"):
                    if fx.rsize1 and fx.ops <= cmp_ops:
                        continue  # (b cmp bit) -> b : both 1 bit wide
                    if fx.samestr and fx.ops <= cmp_ops:
                        pass
                    for sym in sorted(fx.ops & (cmp_ops | dbl)):
                        out.report(
                            f.file,
                            f.dqual,
                            "%s under op %s" % (norm(gr.node), sym),
                            gr.node.lineno,
                            "rewrite returns an operand (operand width) for operator %r whose result is %s: the expression's width changes" % (sym, "1 bit wide" if sym in cmp_ops else "twice as wide"),
                        )
                elif c[0] == "bit":
                    for sym in sorted(fx.ops - cmp_ops):
                        out.report(f.file, f.dqual, "%s under op %s" % (norm(gr.node), sym), gr.node.lineno, "rewrite returns a 1-bit literal for operator %r whose result has the operand width" % sym)
    out.stats["returns"] = n
    if n < 5:
        raise AnalysisError("R-WIDTH: only %d operand/literal returns recognised in the rewrite helpers" % n)
    return out


# ======================================================================================= purity
EXP_CLASSES_CACHE = {}


def exp_classes(repo):
    """classes of expressions.py deriving (by name) from exp"""
    m = repo.mod(EXPR)
    if "exp" not in m.classes:
        raise AnalysisError("anchor vanished: class exp")
    out = {}
    for c in m.classes.values():
        if any(x.name == "exp" for x in repo.mro(c)):
            out[c.name] = c
    if len(out) < 15:
        raise AnalysisError("only %d exp subclasses found" % len(out))
    return out


CONSTRUCTORS = {"cst", "cfp", "sym", "reg", "ext", "lab", "comp", "mem", "ptr", "slc", "tst", "op", "uop", "vec", "vecw", "top", "exp", "composer", "cls"}
DECLARED_MUTATORS = {
    "__init__": "constructor",
    "__setstate__": "unpickling",
    "__setattr__": "attribute protocol",
    "__setitem__": "documented in-place part assignment (comp)",
    "signed": "declared mutator: mark self signed",
    "unsigned": "declared mutator: mark self unsigned",
    "simplify": "documented in-place simplification of self",
    "cut": "comp part bookkeeping on self",
    "restruct": "comp part bookkeeping on self",
    "set_top": "declared mutator",
    "setref": "declared mutator",
    "setendian": "declared mutator",
    "loads": "rebinding of local self only",
    "__enter__": "regtype context manager",
    "__exit__": "regtype context manager",
    "__call__": None,  # decided per class below
}
PURE_MODULE_FUNCS = ("ror", "rol", "ltu", "geu", "oper", "slicer", "composer", "extract_offset", "symbols_of", "locations_of", "complexity", "get_lsb_msb", "ismask")


def _root(e):
    depth = 0
    while isinstance(e, (ast.Attribute, ast.Subscript)):
        e = e.value
        depth += 1
    return (e.id if isinstance(e, ast.Name) else None), depth


def provenance(fn, params):
    """name -> 'param' | 'fresh' | 'container' | 'unknown' (flow-insensitive, worst case over all assignments)"""
    prov = {p: "param" for p in params}
    order = {"fresh": 0, "unknown": 1, "container": 2, "param": 3}

    def classify(v):
        if isinstance(v, ast.Call):
            f = v.func
            if isinstance(f, ast.Name) and f.id in CONSTRUCTORS:
                return "fresh"
            if isinstance(f, ast.Attribute) and f.attr in ("copy", "__class__"):
                return "fresh"
            if isinstance(f, ast.Attribute) and f.attr in CONSTRUCTORS and isinstance(f.value, ast.Name):
                return "fresh"
            return "unknown"
        if isinstance(v, ast.Subscript):
            r, _ = _root(v)
            if r in prov and prov[r] in ("param", "container") and isinstance(v.value, ast.Name) and not isinstance(v.slice, ast.Slice):
                return "container"  # env[self], d[k]
            if r in prov and prov[r] in ("param", "container") and isinstance(v.value, ast.Attribute):
                return "container"  # self.parts[k]
            return "unknown"
        if isinstance(v, ast.Attribute):
            r, _ = _root(v)
            if r in prov and prov[r] in ("param", "container"):
                return "container"  # self.x, e.l
            return "unknown"
        if isinstance(v, ast.Name):
            return prov.get(v.id, "unknown")
        if isinstance(v, ast.IfExp):
            a, b = classify(v.body), classify(v.orelse)
            return a if order[a] >= order[b] else b
        if isinstance(v, (ast.BinOp, ast.UnaryOp, ast.Compare)):
            return "unknown"  # operator result: may be an operand (x+0 -> x)
        if isinstance(v, ast.Constant):
            return "fresh"
        return "unknown"

    changed = True
    it = 0
    while changed and it < 6:
        changed = False
        it += 1
        for n in ast.walk(fn):
            pairs = []
            if isinstance(n, ast.Assign):
                for t in n.targets:
                    if isinstance(t, ast.Name):
                        pairs.append((t.id, n.value))
                    elif isinstance(t, ast.Tuple) and isinstance(n.value, ast.Tuple) and len(t.elts) == len(n.value.elts):
                        for a, b in zip(t.elts, n.value.elts):
                            if isinstance(a, ast.Name):
                                pairs.append((a.id, b))
                    elif isinstance(t, ast.Tuple):
                        for a in t.elts:
                            if isinstance(a, ast.Name):
                                pairs.append((a.id, None))
            elif isinstance(n, ast.For):
                for a in ast.walk(n.target):
                    if isinstance(a, ast.Name):
                        r, _ = _root(n.iter) if not isinstance(n.iter, ast.Call) else (None, 0)
                        if isinstance(n.iter, ast.Call):
                            # iter(X.items()) / X.values()
                            for z in ast.walk(n.iter):
                                if isinstance(z, ast.Name) and prov.get(z.id) in ("param", "container"):
                                    r = z.id
                        c = "container" if r in prov and prov[r] in ("param", "container") else "unknown"
                        if a.id not in params and order[c] > order.get(prov.get(a.id, "fresh"), 0) or a.id not in prov:
                            if prov.get(a.id) != c:
                                prov[a.id] = c if a.id not in prov or order[c] > order[prov[a.id]] else prov[a.id]
                                changed = True
            for name, v in pairs:
                if name in params:
                    # parameter rebound (e.g. n = cst(n, ...)): stays param (worst case) unless never used before; keep param
                    continue
                c = classify(v) if v is not None else "unknown"
                if name not in prov or order[c] > order[prov[name]]:
                    prov[name] = c
                    changed = True
    return prov


def _save_restore(fn, attr_store):
    """`sf = self.sf ... self.sf = True ... self.sf = sf`: the attribute is re-assigned from a local that was loaded
    from that very attribute, after the store, on the straight-line path to the return."""
    tgt = norm(attr_store)
    saved = set()
    for n in ast.walk(fn):
        if isinstance(n, ast.Assign) and len(n.targets) == 1 and isinstance(n.targets[0], ast.Name) and norm(n.value) == tgt:
            saved.add(n.targets[0].id)
    if not saved:
        return False
    cfg = CFG(fn, may_raise=lambda x: False)
    restores = set()
    stores = []
    for nd in cfg.nodes:
        if nd.kind == "stmt" and isinstance(nd.ast, ast.Assign):
            for t in nd.ast.targets:
                if norm(t) == tgt:
                    if isinstance(nd.ast.value, ast.Name) and nd.ast.value.id in saved:
                        restores.add(nd.id)
                    else:
                        stores.append(nd)
    if not restores:
        return False
    for s in stores:
        if cfg.some_path(s, {cfg.exit.id}, avoid=restores) is not None:
            return False
    return True


def pure_functions(repo):
    """(FuncInfo, why) expected not to write to their operands"""
    m = repo.mod(EXPR)
    out = []
    classes = exp_classes(repo)
    for c in classes.values():
        # private helpers that are called only from declared mutators (or from other such helpers) are part of the mutator:
        # `simplify` split into `_misordered` / `_swapped` still simplifies in place
        callers = {}
        for name, f in c.methods.items():
            for x in ast.walk(f.node):
                if isinstance(x, ast.Call) and isinstance(x.func, ast.Attribute) and isinstance(x.func.value, ast.Name) and x.func.value.id == "self" and x.func.attr in c.methods:
                    callers.setdefault(x.func.attr, set()).add(name)
        helper_of_mutator = set()
        changed = True
        while changed:
            changed = False
            for name in c.methods:
                if name.startswith("_") and not name.startswith("__") and name not in helper_of_mutator and callers.get(name):
                    if all((cn in DECLARED_MUTATORS and cn != "__call__") or cn in helper_of_mutator for cn in callers[name]):
                        helper_of_mutator.add(name)
                        changed = True
        for name, f in c.methods.items():
            if (name in DECLARED_MUTATORS and name != "__call__") or name in helper_of_mutator:
                continue
            out.append((f, "method %s.%s of the expression algebra" % (c.name, name)))
    oc = m.classes.get("_operator")
    if oc is None:
        raise AnalysisError("anchor vanished: class _operator")
    for name, f in oc.methods.items():
        if name != "__init__":
            out.append((f, "_operator.%s" % name))
    for name in PURE_MODULE_FUNCS:
        if name in m.functions:
            out.append((m.functions[name], "module-level helper of the algebra"))
    return out


def r_oppure(repo, tier):
    out = RuleOut(
        "R-OPPURE",
        "operator implementations, eval methods and the other non-mutator methods of the expression algebra (and the functions "
        "stored in the OP_* tables, _operator.__call__) contain no attribute store on a parameter (including self) nor on an "
        "object read out of a parameter (env[self], self.x, e.l ...); exempt: constructors, __setstate__, the declared "
        "mutators (signed, unsigned, simplify family, __setitem__, cut, restruct, set_top, setref) and the save/restore "
        "idiom; stores on values of unknown freshness (results of eval/slicing/operators) are undecided, not alarmed",
    )
    funcs = pure_functions(repo)
    nst = 0
    for f, why in funcs:
        fn = f.node
        params = set(f.params())
        if fn.args.vararg:
            params.add(fn.args.vararg.arg)
        prov = provenance(fn, params)
        stores = []
        for n in _walk_no_nested(fn):
            tg = []
            if isinstance(n, ast.Assign):
                tg = n.targets
            elif isinstance(n, ast.AugAssign):
                tg = [n.target]
            for t in tg:
                for e in t.elts if isinstance(t, (ast.Tuple, ast.List)) else [t]:
                    if isinstance(e, ast.Attribute):
                        stores.append((n, e))
        # mutator method calls on params: .signed() / .unsigned() / set_top()
        for n in _walk_no_nested(fn):
            if isinstance(n, ast.Call) and isinstance(n.func, ast.Attribute) and n.func.attr in ("signed", "unsigned", "set_top") and isinstance(n.func.value, ast.Name):
                stores.append((n, n.func))
        out.inst(f.key, {"function": f.key, "attribute_stores": len(stores)} if stores and len(out.samples) < 4 else None, nontrivial=bool(stores))
        for stmt, e in stores:
            nst += 1
            r, depth = _root(e.value)
            if r is None:
                out.undecide(f.file, f.dqual, norm(stmt)[:100], "store through a computed receiver")
                continue
            p = prov.get(r, "unknown")
            direct = isinstance(e.value, ast.Name)
            if not direct and p in ("param", "container"):
                p = "container"
            elif not direct and p == "fresh":
                p = "fresh"
            what = "%s.%s" % (norm(e.value), e.attr)
            if p == "fresh":
                continue
            if p == "unknown":
                out.undecide(f.file, f.dqual, norm(stmt)[:100], "receiver %s has unknown freshness (result of eval / slicing / operator)" % norm(e.value))
                continue
            if isinstance(stmt, ast.Assign) and _save_restore(fn, e):
                continue
            out.report(
                f.file,
                f.dqual,
                "store %s" % what,
                stmt.lineno,
                "%s writes attribute %r of %s (%s) in place: using an expression as an operand / evaluating it changes that expression" % (f.dqual, e.attr, norm(e.value), "a parameter" if p == "param" else "an object read out of a parameter"),
            )
    out.stats["functions"] = len(funcs)
    out.stats["stores"] = nst
    if len(funcs) < 180:
        raise AnalysisError("R-OPPURE: only %d pure-expected functions found" % len(funcs))
    # owner discipline for the simplify family and the eqn helpers: may rebind fields of the node they own, not fields of its children
    m = repo.mod(EXPR)
    owners = []
    for c in exp_classes(repo).values():
        if "simplify" in c.methods:
            owners.append((c.methods["simplify"], "self"))
    for name in ("eqn1_helpers", "eqn2_helpers"):
        owners.append((repo.func(EXPR, name), "e"))
    for f, root in owners:
        prov = provenance(f.node, set(f.params()))
        for n in _walk_no_nested(f.node):
            tg = n.targets if isinstance(n, ast.Assign) else ([n.target] if isinstance(n, ast.AugAssign) else [])
            for t in tg:
                if isinstance(t, ast.Attribute):
                    r, depth = _root(t)
                    if r == root and depth >= 2:
                        out.inst("%s::child-store" % f.key, None)
                        out.report(f.file, f.dqual, "store %s" % norm(t), n.lineno, "in-place simplification writes a field of a child node (%s) that may be shared with other expressions" % norm(t))
                elif isinstance(t, ast.Subscript) and isinstance(t.value, ast.Name) and t.value.id != root:
                    # in-place part assignment x[i:j] = ... on an object read out of the owned node (x = e.l): mutates a child
                    if prov.get(t.value.id) in ("container", "param"):
                        # the provenance table is the worst case over all assignments of the name; a name that is re-bound to
                        # a fresh object before this store (`a, c = e.l.l, e.l.r` ... `c = comp(n); c[0:k] = ..`) is decided
                        # by the definitions that reach the store
                        from ..cfg import CFG as _CFG, reaching_defs as _rd
                        g_ = _CFG(f.node, may_raise=lambda x: False)
                        nd_ = g_.stmt_node.get(id(n))
                        if nd_ is not None:
                            rd_ = _rd(g_, t.value.id).get(nd_.id, frozenset())
                            vals = []
                            for did in rd_:
                                d_ = g_.nodes[did].ast
                                if isinstance(d_, ast.Assign) and len(d_.targets) == 1 and isinstance(d_.targets[0], ast.Name) and d_.targets[0].id == t.value.id:
                                    vals.append(d_.value)
                                else:
                                    vals = None
                                    break
                            if vals and all(isinstance(v_, ast.Call) and ((isinstance(v_.func, ast.Name) and v_.func.id in CONSTRUCTORS) or (isinstance(v_.func, ast.Attribute) and v_.func.attr == "copy")) for v_ in vals):
                                continue
                        out.inst("%s::child-part-store" % f.key, None)
                        out.report(f.file, f.dqual, "part store %s" % norm(t), n.lineno, "in-place part assignment on %s, an operand read out of the node being simplified: the operand object (possibly shared with other expressions) is turned into the result" % t.value.id)
    return out


def r_sizeimm(repo, tier):
    out = RuleOut(
        "R-SIZEIMM",
        "the width of an expression is assigned in its constructor (or __setstate__) only: in cas/expressions.py, cas/mapper.py, "
        "system/memory.py and system/core.py no other function stores `.size` of self (exp subclasses) or of a parameter / "
        "object read out of a parameter; and every exp subclass __init__ assigns size (and sf) on every normal path",
    )
    classes = exp_classes(repo)
    files = [EXPR, "amoco/cas/mapper.py", "amoco/system/memory.py", "amoco/system/core.py"]
    nst = 0
    for rel in files:
        m = repo.mod(rel)
        for f in m.functions.values():
            in_exp = f.cls is not None and f.cls.name in classes and m.rel == EXPR
            if f.name in ("__init__", "__setstate__") and in_exp:
                continue
            params = set(f.params())
            prov = provenance(f.node, params)
            for n in _walk_no_nested(f.node):
                tg = n.targets if isinstance(n, ast.Assign) else ([n.target] if isinstance(n, ast.AugAssign) else [])
                for t in tg:
                    if isinstance(t, ast.Attribute) and t.attr == "size":
                        r, depth = _root(t.value)
                        if r == "self" and not in_exp:
                            continue  # size of a non-expression object (ispec, structures)
                        p = prov.get(r, "unknown") if r else "unknown"
                        nst += 1
                        out.inst("%s::%s" % (f.key, norm(t)), {"site": "%s:%d" % (rel, n.lineno), "store": norm(n)[:80], "receiver": p})
                        if p == "fresh" and isinstance(t.value, ast.Name):
                            continue
                        if p == "unknown":
                            out.undecide(rel, f.dqual, norm(n)[:100], "receiver of unknown freshness")
                            continue
                        out.report(rel, f.dqual, "store %s" % norm(t), n.lineno, "the width of an existing expression (%s) is re-assigned outside its constructor" % norm(t.value))
    # definite assignment of size / sf in constructors
    ninit = 0
    for c in classes.values():
        init = c.methods.get("__init__")
        if init is None:
            continue
        ninit += 1
        cfg = CFG(init.node, may_raise=lambda x: isinstance(x, ast.Raise))
        for attr in ("size", "sf"):
            assign = set()
            for nd in cfg.nodes:
                if nd.kind == "stmt" and nd.ast is not None:
                    for x in ast.walk(nd.ast):
                        if isinstance(x, ast.Attribute) and isinstance(x.ctx, ast.Store) and x.attr == attr and isinstance(x.value, ast.Name) and x.value.id == "self":
                            assign.add(nd.id)
                        # delegation to a base constructor / helper that sets it
                        if isinstance(x, ast.Call) and isinstance(x.func, ast.Attribute) and x.func.attr == "__init__":
                            assign.add(nd.id)
            path = cfg.some_path(cfg.entry, {cfg.exit.id}, avoid=assign, follow=lambda a, b, lab: lab != "exc")
            out.inst("%s::init-%s" % (init.key, attr), {"constructor": init.key, "attr": attr, "assigned_on_all_paths": path is None} if ninit < 3 else None)
            if path is not None:
                out.report(init.file, init.dqual, "self.%s unassigned" % attr, init.node.lineno, "constructor of %s can return without assigning self.%s (path %s)" % (c.name, attr, cfg.describe_path(path)))
    out.stats["size_stores"] = nst
    out.stats["constructors"] = ninit
    if ninit < 12:
        raise AnalysisError("R-SIZEIMM: only %d exp constructors found" % ninit)
    return out


# ======================================================================================= pickling
def all_slots(repo, c):
    slots = []
    dict_bearing = False
    for k in repo.mro(c):
        own = None
        for s in k.node.body:
            if isinstance(s, ast.Assign) and any(isinstance(t, ast.Name) and t.id == "__slots__" for t in s.targets):
                try:
                    own = list(ast.literal_eval(s.value))
                except Exception:
                    own = None
        if own is None:
            if k.name != "object":
                dict_bearing = True
        else:
            for a in own:
                if a.startswith("__") and not a.endswith("__"):
                    a = "_%s%s" % (k.name.lstrip("_"), a)
                slots.append(a)
    return slots, dict_bearing


def r_slotstate(repo, tier):
    out = RuleOut(
        "R-SLOTSTATE",
        "pickling state tables are complete: a class defining __setstate__ restores every slot of its MRO (each slot is "
        "stored, from the state, on every path); a __getstate__ dict carries every key its __setstate__ reads; a subclass "
        "without __slots__ inheriting a slot-only __setstate__ owns no instance-dict attribute set in its __init__",
    )
    n = 0
    targets = []
    for rel in (EXPR, "amoco/cas/mapper.py", "amoco/system/memory.py", "amoco/code.py", "amoco/cfg.py", "amoco/arch/core.py"):
        m = repo.mod(rel)
        for c in m.classes.values():
            if "__setstate__" in c.methods or "__getstate__" in c.methods:
                targets.append(c)
    for c in targets:
        ss = c.methods.get("__setstate__")
        gs = c.methods.get("__getstate__")
        slots, dictb = all_slots(repo, c)
        if ss is not None:
            n += 1
            stored = set()
            for x in ast.walk(ss.node):
                if isinstance(x, ast.Attribute) and isinstance(x.ctx, ast.Store) and isinstance(x.value, ast.Name) and x.value.id == "self":
                    a = x.attr
                    if a.startswith("__") and not a.endswith("__"):
                        a = "_%s%s" % (c.name.lstrip("_"), a)
                    stored.add(a)
            # generic restore loops: for k, v in state.items(): setattr(self, k, v)
            generic = any(isinstance(x, ast.Call) and norm(x.func) == "setattr" and c.name != "reg" for x in ast.walk(ss.node)) or any(isinstance(x, ast.Call) and isinstance(x.func, ast.Attribute) and x.func.attr == "update" and "__dict__" in norm(x.func) for x in ast.walk(ss.node))
            # a `self.__init__(args)` call restores exactly the slots the constructor copies from a parameter that
            # receives the state's value for that very slot; derived slots (e.g. sf = x.sf) are NOT restored
            for x in ast.walk(ss.node):
                if isinstance(x, ast.Call) and isinstance(x.func, ast.Attribute) and x.func.attr == "__init__" and isinstance(x.func.value, ast.Name) and x.func.value.id == "self":
                    init = repo.find_method(c, "__init__")
                    if init is None:
                        continue
                    ps = [p.arg for p in init.node.args.args][1:]
                    argof = dict(zip(ps, x.args))
                    for k in x.keywords:
                        if k.arg:
                            argof[k.arg] = k.value
                    for st in init.node.body:
                        if isinstance(st, ast.Assign) and isinstance(st.value, ast.Name) and st.value.id in argof:
                            for t in st.targets:
                                if isinstance(t, ast.Attribute) and isinstance(t.value, ast.Name) and t.value.id == "self":
                                    a = t.attr
                                    if a.startswith("__") and not a.endswith("__"):
                                        a = "_%s%s" % (c.name.lstrip("_"), a)
                                    # the argument must read the state entry of that slot
                                    if any(isinstance(z, ast.Constant) and z.value in (a, t.attr) for z in ast.walk(argof[st.value.id])):
                                        stored.add(a)
            missing = [a for a in slots if a not in stored]
            out.inst("%s::%s.__setstate__" % (c.mod.rel, c.name), {"class": c.name, "slots": slots, "restored": sorted(stored), "generic_restore": generic})
            # a class that also defines __getstate__ chooses its own (possibly reduced) state: for it the
            # obligation is key agreement (below), not restoring every slot
            if not generic and gs is None:
                for a in missing:
                    out.report(c.mod.rel, "%s.__setstate__" % c.name, "slot %s not restored" % a, ss.node.lineno, "__setstate__ of %s does not restore slot %r: an unpickled object lacks it (AttributeError) or loses its value" % (c.name, a))
            # keys read from the state vs keys written by __getstate__
            if gs is not None:
                written = set()
                for x in ast.walk(gs.node):
                    if isinstance(x, ast.Subscript) and isinstance(x.ctx, ast.Store) and isinstance(x.slice, ast.Constant):
                        written.add(x.slice.value)
                    if isinstance(x, ast.Dict):
                        for k in x.keys:
                            if isinstance(k, ast.Constant):
                                written.add(k.value)
                read = set()
                for x in ast.walk(ss.node):
                    if isinstance(x, ast.Subscript) and isinstance(x.ctx, ast.Load) and isinstance(x.slice, ast.Constant) and isinstance(x.slice.value, str):
                        read.add(x.slice.value)
                if written:
                    out.inst("%s::%s.getstate-setstate" % (c.mod.rel, c.name), {"class": c.name, "written": sorted(written), "read": sorted(read)})
                    for k in sorted(read - written):
                        out.report(c.mod.rel, "%s.__setstate__" % c.name, "state key %s" % k, ss.node.lineno, "__setstate__ reads state[%r] which __getstate__ never writes (KeyError on unpickling)" % k)
        # dict-bearing subclasses inheriting a slot-only __setstate__
    m = repo.mod(EXPR)
    for c in m.classes.values():
        if "__setstate__" in c.methods:
            continue
        inh = None
        for k in repo.mro(c)[1:]:
            if "__setstate__" in k.methods:
                inh = k
                break
        if inh is None:
            continue
        slots, dictb = all_slots(repo, c)
        own_has_slots = any(isinstance(s, ast.Assign) and any(isinstance(t, ast.Name) and t.id == "__slots__" for t in s.targets) for s in c.node.body)
        if own_has_slots:
            # slots added by the subclass must be restored by the inherited method
            continue
        n += 1
        # reads only state[1] (slots half)?
        reads_dict_half = any(isinstance(x, ast.Subscript) and norm(x) == "state[0]" for x in ast.walk(inh.methods["__setstate__"].node))
        init = c.methods.get("__init__")
        dict_attrs = set()
        if init is not None:
            for x in ast.walk(init.node):
                if isinstance(x, ast.Attribute) and isinstance(x.ctx, ast.Store) and isinstance(x.value, ast.Name) and x.value.id == "self":
                    if x.attr not in slots and not x.attr.startswith("_reg__"):
                        dict_attrs.add(x.attr)
        out.inst("%s::%s inherits %s.__setstate__" % (c.mod.rel, c.name, inh.name), {"class": c.name, "inherits": inh.name, "instance_dict_attrs": sorted(dict_attrs), "dict_half_restored": reads_dict_half})
        if dict_attrs and not reads_dict_half:
            for a in sorted(dict_attrs):
                out.report(c.mod.rel, "%s.__init__" % c.name, "dict attribute %s" % a, init.node.lineno, "%s has no __slots__ and sets self.%s in its instance dict, but the inherited %s.__setstate__ restores only the slots half of the pickled state: the attribute is lost by a pickle round-trip" % (c.name, a, inh.name))
    out.stats["classes"] = n
    if n < 6:
        raise AnalysisError("R-SLOTSTATE: only %d classes with pickling state found" % n)
    return out


# ======================================================================================= width of operand-field returns
def same_width_fields(repo, c):
    """fields of class c holding an expression of the same width as self, derived from __init__:
    `self.size = <p>.size` / `self.size = self.<f>.size` with `self.<f> = <p>`; plus fields whose size is compared
    with such a field in a raising `if`.  Returns (same, exprfields) or None when size is assigned conditionally."""
    init = c.methods.get("__init__")
    if init is None:
        return None
    field_of_param = {}
    fields = set()
    for n in ast.walk(init.node):
        if isinstance(n, ast.Assign):
            for t in n.targets:
                if isinstance(t, ast.Attribute) and isinstance(t.value, ast.Name) and t.value.id == "self" and isinstance(n.value, ast.Name):
                    field_of_param[n.value.id] = t.attr
                    fields.add(t.attr)
    same = set()
    size_assigns = [n for n in ast.walk(init.node) if isinstance(n, (ast.Assign, ast.AugAssign)) and any(norm(t) == "self.size" for t in (n.targets if isinstance(n, ast.Assign) else [n.target]))]
    if len(size_assigns) != 1 or isinstance(size_assigns[0], ast.AugAssign):
        return (set(), fields) if len(size_assigns) <= 1 else None
    v = size_assigns[0].value
    if isinstance(v, ast.Attribute) and v.attr == "size":
        src = norm(v.value)
        if src.startswith("self."):
            same.add(src[5:])
        elif src in field_of_param:
            same.add(field_of_param[src])
    # size equality checks that raise
    for n in ast.walk(init.node):
        if isinstance(n, ast.If) and any(isinstance(x, ast.Raise) for x in n.body) and isinstance(n.test, ast.Compare) and isinstance(n.test.ops[0], ast.NotEq):
            a, b = norm(n.test.left), norm(n.test.comparators[0])
            if a.endswith(".size") and b.endswith(".size"):
                fa = field_of_param.get(a[:-5], a[:-5].replace("self.", ""))
                fb = field_of_param.get(b[:-5], b[:-5].replace("self.", ""))
                if fa in same:
                    same.add(fb)
                if fb in same:
                    same.add(fa)
    return same, fields


def r_width_fields(repo, tier):
    out = RuleOut(
        "R-WIDTHF",
        "simplify/eval of an expression class never return one of the node's own operand fields whose width is not tied to "
        "the node's width by the constructor (e.g. the sliced operand x of a slc, the address of a mem, the condition of a "
        "tst): same-width fields are derived from each __init__ (`self.size = <field>.size` and raising size checks)",
    )
    n = 0
    for c in exp_classes(repo).values():
        if c.name in ("op",):
            continue  # operator nodes: width depends on the operator class, decided by R-WIDTH on the eqn helpers
        sw = same_width_fields(repo, c)
        if sw is None:
            out.undecide(EXPR, c.name, "__init__", "size assigned more than once in the constructor")
            continue
        same, fields = sw
        for mname in ("simplify", "eval"):
            f = c.methods.get(mname)
            if f is None:
                continue
            for r in _walk_no_nested(f.node):
                if not isinstance(r, ast.Return) or r.value is None:
                    continue
                v = r.value
                # self.F  or self.F.simplify(...)
                if isinstance(v, ast.Call) and isinstance(v.func, ast.Attribute) and v.func.attr in ("simplify",):
                    v = v.func.value
                if isinstance(v, ast.Attribute) and isinstance(v.value, ast.Name) and v.value.id == "self" and v.attr in fields:
                    n += 1
                    ok = v.attr in same
                    out.inst("%s::%s" % (f.key, norm(r)), {"class": c.name, "method": mname, "return": norm(r), "field_same_width": ok, "same_width_fields": sorted(same)})
                    if not ok:
                        out.report(EXPR, f.dqual, norm(r), r.lineno, "%s.%s returns its operand field %r, whose width is not the node's width (same-width fields of %s: %s)" % (c.name, mname, v.attr, c.name, sorted(same) or "none"))
    out.stats["field_returns"] = n
    if n < 3:
        raise AnalysisError("R-WIDTHF: only %d operand-field returns found" % n)
    return out


# ======================================================================================= aliasing of mutable containers
def mutable_container_classes(repo):
    """exp subclasses with an in-place __setitem__ (stores into self's own fields)"""
    out = []
    for c in exp_classes(repo).values():
        si = c.methods.get("__setitem__")
        if si is None:
            continue
        inplace = False
        for n in ast.walk(si.node):
            if isinstance(n, (ast.Assign, ast.AugAssign)):
                for t in (n.targets if isinstance(n, ast.Assign) else [n.target]):
                    r, d = _root(t)
                    if r == "self" and d >= 1:
                        inplace = True
            if isinstance(n, ast.Call) and isinstance(n.func, ast.Attribute) and isinstance(n.func.value, ast.Name) and n.func.value.id == "self" and n.func.attr in ("cut", "restruct"):
                inplace = True
        if inplace:
            out.append(c)
    return out


def r_aliasret(repo, tier):
    out = RuleOut(
        "R-ALIASRET",
        "a mutable expression container (an exp subclass whose __setitem__ updates self in place: comp) never hands out "
        "itself from __getitem__ / eval / copy: `return self` there would make a later in-place part assignment on either "
        "side visible through the other",
    )
    cs = mutable_container_classes(repo)
    if not any(c.name == "comp" for c in cs):
        raise AnalysisError("R-ALIASRET: comp is no longer recognised as an in-place container (anchor changed)")
    n = 0
    for c in cs:
        for mname in ("__getitem__", "eval", "copy"):
            f = c.methods.get(mname)
            if f is None:
                continue
            for r in _walk_no_nested(f.node):
                if isinstance(r, ast.Return):
                    n += 1
                    bad = isinstance(r.value, ast.Name) and r.value.id == "self"
                    out.inst("%s::%s" % (f.key, norm(r)), {"class": c.name, "method": mname, "return": norm(r), "returns_self": bad})
                    if bad:
                        out.report(EXPR, f.dqual, norm(r), r.lineno, "%s.%s returns the container itself; %s is updated in place by its __setitem__ (the mapper keeps one per register), so the caller's object and the stored one become the same" % (c.name, mname, c.name))
    # mapper.__getitem__ : what it hands out for a register is detached from the entry the map owns (a slice of a comp is a
    # copy by the clause above; simplify() works in place and returns the entry itself)
    g = repo.func("amoco/cas/mapper.py", "mapper.__getitem__")
    owned = set()
    for x in _walk_no_nested(g.node):
        if isinstance(x, ast.Assign) and isinstance(x.targets[0], ast.Name) and any(isinstance(k, ast.Call) and isinstance(k.func, ast.Attribute) and k.func.attr in ("R", "M") and norm(k.func.value) == "self" for k in ast.walk(x.value)):
            owned.add(x.targets[0].id)
    if not owned:
        raise AnalysisError("R-ALIASRET: mapper.__getitem__ no longer reads its entry through self.R / self.M (anchor changed)")
    for r in _walk_no_nested(g.node):
        if isinstance(r, ast.Return) and r.value is not None and ({k.id for k in ast.walk(r.value) if isinstance(k, ast.Name)} & owned):
            n += 1
            v = r.value
            detached = (isinstance(v, ast.Subscript) and isinstance(v.slice, ast.Slice)) or (isinstance(v, ast.Call) and isinstance(v.func, ast.Attribute) and v.func.attr in ("copy", "eval"))
            out.inst("%s::%s" % (g.key, norm(r)), {"class": "mapper", "method": "__getitem__", "return": norm(r), "detached": detached})
            if not detached:
                out.report("amoco/cas/mapper.py", g.dqual, norm(r), r.lineno, "mapper.__getitem__ returns `%s`: the map's own entry (or the result of an in-place method on it) instead of a slice/copy; mapper.__setitem__ updates register entries in place, so a value read earlier changes with later partial writes" % norm(r.value))
    out.stats["returns"] = n
    return out


def r_own_mapper(repo, tier):
    from ..cfg import reaching_defs

    out = RuleOut(
        "R-OWN",
        "mapper.__setitem__: the object stored for a register location (the branch where the location is not a pointer) is "
        "owned by the mapper -- every definition of the stored variable reaching the store is a fresh comp(...) or the "
        "mapper's own entry (self.R(...)); never the caller's value, because register entries are later updated in place",
    )
    f = repo.func("amoco/cas/mapper.py", "mapper.__setitem__")
    cfg = CFG(f.node)
    params = set(f.params())
    n = 0
    # find stores self.__map[K] = X under a negative `loc._is_ptr` guard
    def guards_of(stmts, target, acc):
        for s in stmts:
            if s is target:
                return acc
            if isinstance(s, ast.If):
                r = guards_of(s.body, target, acc + [(s.test, True)])
                if r is not None:
                    return r
                r = guards_of(s.orelse, target, acc + [(s.test, False)])
                if r is not None:
                    return r
            elif isinstance(s, (ast.For, ast.While, ast.With, ast.Try)):
                for blk in (getattr(s, "body", []), getattr(s, "orelse", []), getattr(s, "finalbody", [])):
                    r = guards_of(blk, target, acc)
                    if r is not None:
                        return r
                for h in getattr(s, "handlers", []):
                    r = guards_of(h.body, target, acc)
                    if r is not None:
                        return r
        return None

    for nd in cfg.nodes:
        s = nd.ast
        if nd.kind != "stmt" or not isinstance(s, ast.Assign):
            continue
        t = s.targets[0]
        if not (isinstance(t, ast.Subscript) and isinstance(t.value, ast.Attribute) and t.value.attr == "__map" and isinstance(s.value, ast.Name)):
            continue
        g = guards_of(f.node.body, s, []) or []
        reg_branch = any((not pol) and "_is_ptr" in norm(test) for test, pol in g)
        n += 1
        var = s.value.id
        rd = reaching_defs(cfg, var)
        defs = rd.get(nd.id, frozenset())
        descr = []
        bad = []
        for d in defs:
            dn = cfg.nodes[d]
            if dn is cfg.entry:
                descr.append("parameter/undefined")
                if var in params:
                    bad.append("parameter %s" % var)
                continue
            v = dn.ast.value if isinstance(dn.ast, ast.Assign) else None
            txt = norm(v) if v is not None else norm(dn.ast)
            descr.append(txt[:60])
            fresh = isinstance(v, ast.Call) and ((isinstance(v.func, ast.Name) and v.func.id in CONSTRUCTORS) or (isinstance(v.func, ast.Attribute) and v.func.attr in ("copy", "R") and (v.func.attr == "copy" or norm(v.func.value) == "self")))
            if not fresh:
                bad.append(txt[:80])
        out.inst("%s::%s" % (f.key, norm(s)), {"store": norm(s), "register_branch": reg_branch, "reaching_definitions": descr})
        if reg_branch:
            for b in bad:
                out.report(f.file, f.dqual, "%s <- %s" % (norm(s), b), s.lineno, "the register entry stored in the mapper can be the caller's own object (%s): it is updated in place by later sub-register writes, which then change the caller's expression (and any other map sharing it)" % b)
    out.stats["map_stores"] = n
    if n < 2:
        raise AnalysisError("R-OWN: stores to self.__map not found in mapper.__setitem__")
    return out


# ======================================================================================= rebuilds keep size and endianness
def r_rebuild(repo, tier):
    out = RuleOut(
        "R-REBUILD",
        "a memory expression rebuilt from an existing one keeps its attributes: every `mem(...)` constructed in "
        "cas/expressions.py or cas/mapper.py from an address derived from `<S>.a` (the address of an existing mem S) passes "
        "a size explicitly (the constructor's default is 32 bits) and passes `endian=<S>.endian` (the default is little endian)",
    )
    n = 0
    for rel in (EXPR, "amoco/cas/mapper.py"):
        m = repo.mod(rel)
        for f in m.functions.values():
            calls = [c for c in _walk_no_nested(f.node) if isinstance(c, ast.Call) and isinstance(c.func, ast.Name) and c.func.id == "mem"]
            if not calls:
                continue
            # names derived from <S>.a : name -> S text
            src = {}
            changed = True
            while changed:
                changed = False
                for x in _walk_no_nested(f.node):
                    if isinstance(x, ast.Assign) and isinstance(x.targets[0], ast.Name):
                        S = _mem_source(x.value, src)
                        if S and src.get(x.targets[0].id) != S:
                            src[x.targets[0].id] = S
                            changed = True
                    # elements iterated out of the address (for a in self.a.base.l: mem(a, ...))
                    gens = [(x.target, x.iter)] if isinstance(x, ast.For) else [(g.target, g.iter) for g in getattr(x, "generators", [])]
                    for tg, it in gens:
                        if isinstance(tg, ast.Name):
                            S = _mem_source(it, src)
                            if S and src.get(tg.id) != S:
                                src[tg.id] = S
                                changed = True
            for c in calls:
                if not c.args:
                    continue
                S = _mem_source(c.args[0], src)
                if S is None:
                    continue
                n += 1
                kw = {k.arg: k.value for k in c.keywords if k.arg}
                has_size = len(c.args) >= 2 or "size" in kw
                end = kw.get("endian")
                if end is None and len(c.args) >= 6:
                    end = c.args[5]
                ok_end = end is not None and norm(end) == "%s.endian" % S
                out.inst("%s::%s" % (f.key, norm(c)[:70]), {"function": f.dqual, "call": norm(c)[:90], "source_mem": S, "size_passed": has_size, "endian": norm(end) if end is not None else None})
                if not has_size:
                    out.report(rel, f.dqual, "mem rebuilt without size: %s" % norm(c)[:80], c.lineno, "%s rebuilds a memory expression from %s without passing its size: the constructor default (32 bits) replaces the real width" % (f.dqual, S))
                if not ok_end:
                    out.report(rel, f.dqual, "mem rebuilt without endian: %s" % norm(c)[:80], c.lineno, "%s rebuilds a memory expression from %s without `endian=%s.endian`: the result silently becomes little-endian, so a big-endian location is read/concretised byte-swapped" % (f.dqual, S, S))
    out.stats["rebuild_sites"] = n
    if n < 4:
        raise AnalysisError("R-REBUILD: only %d mem rebuild sites found" % n)
    return out


def _mem_source(e, src):
    """the existing mem S whose address `S.a` the expression e is derived from (text), or None"""
    for x in ast.walk(e):
        if isinstance(x, ast.Attribute) and x.attr == "a" and isinstance(x.ctx, ast.Load):
            return norm(x.value)
        if isinstance(x, ast.Name) and x.id in src:
            return src[x.id]
    return None


# ======================================================================================= part keys and part widths agree
def _linform(e, subst):
    """integer-linear form of an index expression: {atom text: coefficient, 1: constant}; None if not linear"""
    if isinstance(e, ast.Constant) and isinstance(e.value, int) and not isinstance(e.value, bool):
        return {1: e.value}
    if isinstance(e, ast.BinOp) and isinstance(e.op, (ast.Add, ast.Sub)):
        a, b = _linform(e.left, subst), _linform(e.right, subst)
        if a is None or b is None:
            return None
        sgn = 1 if isinstance(e.op, ast.Add) else -1
        r = dict(a)
        for k, v in b.items():
            r[k] = r.get(k, 0) + sgn * v
        return {k: v for k, v in r.items() if v}
    if isinstance(e, ast.UnaryOp) and isinstance(e.op, ast.USub):
        a = _linform(e.operand, subst)
        return None if a is None else {k: -v for k, v in a.items()}
    if isinstance(e, (ast.Name, ast.Attribute, ast.Subscript)):
        t = norm(e)
        if t in subst:
            return dict(subst[t])
        if any(isinstance(x, ast.Call) for x in ast.walk(e)):
            return None
        return {t: 1}
    return None


def _expand(form, subst, depth=0):
    """apply the substitution to the atoms of a linear form until nothing changes"""
    if form is None or depth > 6:
        return form
    r = {}
    again = False
    for k, v in form.items():
        if k != 1 and k in subst:
            again = True
            for k2, v2 in subst[k].items():
                r[k2] = r.get(k2, 0) + v * v2
        else:
            r[k] = r.get(k, 0) + v
    r = {k: v for k, v in r.items() if v}
    return _expand(r, subst, depth + 1) if again else r


def _guards_to(fnode, target):
    """tests (expr, polarity) of the If statements enclosing `target` in fnode"""
    def rec(stmts, acc):
        for s in stmts:
            if s is target:
                return acc
            if isinstance(s, ast.If):
                for blk, pol in ((s.body, True), (s.orelse, False)):
                    r = rec(blk, acc + [(s.test, pol)])
                    if r is not None:
                        return r
            else:
                for blk in (getattr(s, "body", []), getattr(s, "orelse", []), getattr(s, "finalbody", [])):
                    if isinstance(blk, list):
                        r = rec(blk, acc)
                        if r is not None:
                            return r
                for h in getattr(s, "handlers", []):
                    r = rec(h.body, acc)
                    if r is not None:
                        return r
        return None

    return rec(fnode.body, []) or []


def r_span(repo, tier):
    out = RuleOut(
        "R-SPAN",
        "class comp: a part stored under the key (lo, hi) is hi-lo bits wide.  For every store `<c>.parts[(lo, hi)] = V` where V is "
        "top(n), cst(x, n) or a slice W[a:b], the integer-linear form of n (resp. b-a) equals hi-lo, using the class invariant "
        "`P = parts[K]  =>  P.size == K[1]-K[0]` and the equalities tested by the enclosing if statements; the matching "
        "`smask[lo:hi] = [(lo, hi)] * n` updates use the same bounds and n == hi-lo.  Other stored values are not decided here",
    )
    c = repo.mod(EXPR).classes.get("comp")
    if c is None:
        raise AnalysisError("class comp vanished")
    nst = 0
    for f0 in c.methods.values():
        f = repo.func(EXPR, f0.qual)
        fn = f.node
        # P = <x>.parts[K]  ->  P.size == K[1]-K[0]
        subst0 = {}
        for x in _walk_no_nested(fn):
            if isinstance(x, ast.Assign) and isinstance(x.targets[0], ast.Name) and isinstance(x.value, ast.Subscript) and norm(x.value.value).endswith(".parts") and isinstance(x.value.slice, ast.Name):
                k = x.value.slice.id
                subst0["%s.size" % x.targets[0].id] = {"%s[1]" % k: 1, "%s[0]" % k: -1}
            # for K, P in <x>.parts.items()
            if isinstance(x, ast.For) and isinstance(x.target, ast.Tuple) and len(x.target.elts) == 2 and norm(x.iter).endswith(".parts.items()") and all(isinstance(e, ast.Name) for e in x.target.elts):
                k, p = x.target.elts[0].id, x.target.elts[1].id
                subst0["%s.size" % p] = {"%s[1]" % k: 1, "%s[0]" % k: -1}
        for x in _walk_no_nested(fn):
            if not isinstance(x, ast.Assign) or len(x.targets) != 1:
                continue
            t = x.targets[0]
            if not isinstance(t, ast.Subscript):
                continue
            base = norm(t.value)
            subst = dict(subst0)
            for test, pol in _guards_to(fn, x):
                for cj in (test.values if isinstance(test, ast.BoolOp) and isinstance(test.op, ast.And) else [test]):
                    if pol and isinstance(cj, ast.Compare) and len(cj.ops) == 1 and isinstance(cj.ops[0], ast.Eq):
                        a, b = _linform(cj.left, subst), _linform(cj.comparators[0], subst)
                        if a and b and len(a) == 1 and list(a.values()) == [1] and 1 not in a:
                            subst[list(a)[0]] = b
            if base.endswith(".parts") and isinstance(t.slice, ast.Tuple) and len(t.slice.elts) == 2:
                lo, hi = t.slice.elts
                span = _expand(_linform(ast.BinOp(left=hi, op=ast.Sub(), right=lo), subst), subst)
                v = x.value
                width = None
                kind = None
                if isinstance(v, ast.Call) and isinstance(v.func, ast.Name) and v.func.id == "top" and v.args:
                    width, kind = _expand(_linform(v.args[0], subst), subst), "top(n)"
                elif isinstance(v, ast.Call) and isinstance(v.func, ast.Name) and v.func.id == "cst" and len(v.args) >= 2:
                    width, kind = _expand(_linform(v.args[1], subst), subst), "cst(x, n)"
                elif isinstance(v, ast.Subscript) and isinstance(v.slice, ast.Slice) and v.slice.lower is not None and v.slice.upper is not None and v.slice.step is None:
                    width, kind = _expand(_linform(ast.BinOp(left=v.slice.upper, op=ast.Sub(), right=v.slice.lower), subst), subst), "slice"
                nst += 1
                decided = kind is not None and width is not None and span is not None
                out.inst("%s::%s" % (f.key, norm(x)[:80]), {"store": norm(x)[:90], "value_kind": kind, "key_span": span if span is None else {str(k): v for k, v in span.items()}, "decided": decided}, nontrivial=decided)
                if decided and width != span:
                    out.report(EXPR, f.dqual, norm(x)[:90], x.lineno, "the part stored under key (%s, %s) is %s bits wide, the key spans %s bits: the comp's parts no longer tile its width" % (norm(lo), norm(hi), norm(v.args[0] if kind == "top(n)" else v.args[1] if kind == "cst(x, n)" else v.slice), norm(ast.BinOp(left=hi, op=ast.Sub(), right=lo))))
            elif base.endswith(".smask") and isinstance(t.slice, ast.Slice) and t.slice.lower is not None and t.slice.upper is not None:
                v = x.value
                if isinstance(v, ast.BinOp) and isinstance(v.op, ast.Mult) and isinstance(v.left, ast.List) and len(v.left.elts) == 1 and isinstance(v.left.elts[0], ast.Tuple) and len(v.left.elts[0].elts) == 2:
                    klo, khi = v.left.elts[0].elts
                    span = _expand(_linform(ast.BinOp(left=t.slice.upper, op=ast.Sub(), right=t.slice.lower), subst), subst)
                    kspan = _expand(_linform(ast.BinOp(left=khi, op=ast.Sub(), right=klo), subst), subst)
                    cnt = _expand(_linform(v.right, subst), subst)
                    same_bounds = _linform(klo, subst) == _linform(t.slice.lower, subst) and _linform(khi, subst) == _linform(t.slice.upper, subst)
                    nst += 1
                    out.inst("%s::%s" % (f.key, norm(x)[:80]), {"smask_update": norm(x)[:90], "same_bounds": same_bounds})
                    if span is not None and cnt is not None and (cnt != span or not same_bounds or kspan != span):
                        out.report(EXPR, f.dqual, norm(x)[:90], x.lineno, "the slice mask update does not cover exactly the bits of the key it records (slice %s:%s, key (%s, %s), count %s)" % (norm(t.slice.lower), norm(t.slice.upper), norm(klo), norm(khi), norm(v.right)))
    # comp.cut removes *every* part under the written range: the parts it pops are enumerated from the whole mask slice
    # self.smask[start:stop] (parts lying strictly inside the range have no bit at either bound)
    if c.methods.get("cut") is None:
        raise AnalysisError("R-SPAN: comp.cut vanished")
    cut = repo.func(EXPR, "comp.cut")
    ps = cut.params()
    lo, hi = (ps[1], ps[2]) if len(ps) >= 3 else (None, None)
    full = []
    for x in ast.walk(cut.node):
        if isinstance(x, (ast.For, ast.comprehension)):
            for k in ast.walk(x.iter):
                if isinstance(k, ast.Subscript) and norm(k.value).endswith(".smask") and isinstance(k.slice, ast.Slice) and k.slice.lower is not None and k.slice.upper is not None and norm(k.slice.lower) == lo and norm(k.slice.upper) == hi:
                    full.append(k)
    pops = [x for x in ast.walk(cut.node) if isinstance(x, ast.Call) and isinstance(x.func, ast.Attribute) and x.func.attr == "pop" and norm(x.func.value).endswith(".parts")]
    out.inst("%s::covered-parts" % cut.key, {"pops": [norm(p) for p in pops], "enumerated_from": [norm(k) for k in full]})
    if pops and not full:
        out.report(EXPR, cut.dqual, "covered parts of [%s:%s]" % (lo, hi), cut.node.lineno, "comp.cut pops parts but does not enumerate them from the whole mask slice self.smask[%s:%s]: a part lying strictly inside the written range is never removed and the comp keeps overlapping parts" % (lo, hi))
    if not pops:
        raise AnalysisError("R-SPAN: comp.cut no longer pops the covered parts (anchor changed)")
    out.stats["stores"] = nst
    if nst < 3:
        raise AnalysisError("R-SPAN: only %d part/smask stores found in class comp" % nst)
    return out


# ======================================================================================= printed form is the identity of an expression
def r_glyph(repo, tier):
    out = RuleOut(
        "R-GLYPH",
        "exp.__hash__ is the hash of the printed form and exp.__eq__/__ne__ compare hashes, so two operators must never print alike: "
        "(1) the OP_* symbols of cas/expressions.py are pairwise distinct, (2) the unicode glyph table icons.mop of ui/render.py is "
        "injective over them -- glyph(s) = mop.get(s, s) takes pairwise distinct values for all operator symbols",
    )
    m = repo.mod(EXPR)
    h = repo.func(EXPR, "exp.__hash__")
    if not any(isinstance(c, ast.Call) and norm(c.func) == "hash" and any(isinstance(k, ast.Name) and k.id == "self" for k in ast.walk(c)) for c in ast.walk(h.node)):
        raise AnalysisError("R-GLYPH: exp.__hash__ no longer hashes the printed form (anchor changed)")
    consts = op_constants(m)
    syms = {}
    for name, v in consts.items():
        if isinstance(v, str):
            syms.setdefault(v, []).append(name)
    out.inst("OP-symbols", {"symbols": sorted(syms)})
    for v, names in sorted(syms.items()):
        if len(names) > 1:
            out.report(EXPR, "<module>", "symbol %r" % v, 0, "operators %s share the symbol %r: their expressions print, hash and compare alike" % (names, v))
    r = repo.mod("amoco/ui/render.py")
    mop = {}
    for n in ast.walk(r.tree):
        if isinstance(n, ast.Assign) and len(n.targets) == 1 and isinstance(n.targets[0], ast.Subscript) and norm(n.targets[0].value).endswith("icons.mop") and isinstance(n.targets[0].slice, ast.Constant) and isinstance(n.value, ast.Constant):
            mop[n.targets[0].slice.value] = (n.value.value, n.lineno)
        if isinstance(n, ast.Assign) and len(n.targets) == 1 and norm(n.targets[0]).endswith("mop") and isinstance(n.value, ast.Dict):
            for k, v in zip(n.value.keys, n.value.values):
                if isinstance(k, ast.Constant) and isinstance(v, ast.Constant):
                    mop[k.value] = (v.value, v.lineno)
    if len(mop) < 10:
        raise AnalysisError("R-GLYPH: glyph table icons.mop not found in ui/render.py (%d rows)" % len(mop))
    seen = {}
    for s in sorted(syms):
        g, line = mop.get(s, (s, 0))
        out.inst("glyph::%s" % s, {"symbol": s, "glyph": g})
        if g in seen:
            out.report("amoco/ui/render.py", "<module>", "glyph of %r" % s, line or mop.get(seen[g], (None, 0))[1], "operators %r and %r are both printed as %r when unicode symbols are on: expressions that differ only by that operator hash and compare equal (vec.simplify drops one as a duplicate)" % (seen[g], s, g))
        else:
            seen[g] = s
    out.stats["symbols"] = len(syms)
    return out


# ======================================================================================= raw bit pattern vs sign-aware view
def r_signview(repo, tier):
    out = RuleOut(
        "R-SIGNVIEW",
        "a constant has two integer views: `.v` (the raw bit pattern, 0 <= v < 2**size) and `.value` (negative when the sign flag is "
        "set and the top bit is 1).  Where bits are assembled -- an operand of |, ^, & or of a << that feeds them, outside the cst/cfp "
        "operator methods whose result is re-masked by the constructor -- and where a 1-bit condition is tested (class tst), the "
        "raw pattern is used: the sign-aware view of a 1-bit true condition is -1, and a negative low part sets every higher bit",
    )
    n = 0
    for rel in (EXPR, "amoco/cas/mapper.py", "amoco/system/memory.py"):
        m = repo.mod(rel)
        for f in m.functions.values():
            cname = f.cls.name if f.cls is not None else None
            if cname in ("cst", "cfp"):
                continue
            for b in ast.walk(f.node):
                if isinstance(b, ast.BinOp) and isinstance(b.op, (ast.BitOr, ast.BitXor, ast.BitAnd)):
                    views = [x for x in ast.walk(b) if isinstance(x, ast.Attribute) and x.attr in ("v", "value") and isinstance(x.ctx, ast.Load)]
                    if not views:
                        continue
                    n += 1
                    bad = [x for x in views if x.attr == "value"]
                    out.inst("%s::%s" % (f.key, norm(b)[:70]), {"function": f.dqual, "bit_assembly": norm(b)[:80], "views": [norm(x) for x in views]})
                    for x in bad:
                        out.report(rel, f.dqual, "bit assembly %s" % norm(b)[:80], b.lineno, "`%s` (sign-aware view) is an operand of the bit-level expression `%s`: for a signed part with its top bit set it is negative and sets every higher bit of the result; the raw pattern is `.v`" % (norm(x), norm(b)[:80]))
            if cname == "tst":
                for x in ast.walk(f.node):
                    if isinstance(x, ast.Compare) and any(isinstance(k, ast.Attribute) and k.attr in ("v", "value") for k in ast.walk(x)):
                        n += 1
                        views = [k for k in ast.walk(x) if isinstance(k, ast.Attribute) and k.attr in ("v", "value")]
                        out.inst("%s::%s" % (f.key, norm(x)), {"function": f.dqual, "condition_test": norm(x), "views": [norm(k) for k in views]})
                        for k in views:
                            if k.attr == "value":
                                out.report(rel, f.dqual, "condition test %s" % norm(x), x.lineno, "the 1-bit condition is tested through its sign-aware view (`%s`): a true condition whose sign flag is set has value -1, so the other branch is selected" % norm(x))
    out.stats["sites"] = n
    if n < 2:
        raise AnalysisError("R-SIGNVIEW: only %d sites (comp.restruct constant fusion and tst.eval expected)" % n)
    return out
