"""R-WIDTHFLOW: bit-width inference over the semantic functions (C06 / C12 / C17).

A small abstract interpretation with one abstract value per expression: its bit width, when that is certain.  Sources of
certainty are the register definitions of the architecture's env module (reg(name, n) / slc(x, pos, n, name)), constant
constructors (cst(v, n), top(n), mem(a, n), bit0/bit1), constant slices x[a:b], zeroextend(n) / signextend(n) with a constant n,
comparisons (1 bit) and width-preserving operators.  Python integers adapt to the other operand and have no width.
Everything else is unknown and never reported.  Where two *certain* widths meet and must agree - the two branches of tst(),
the two operands of + - & | ^, a location and the value stored into it through fmap[loc] = v - a difference is a definite
"size mismatch" ValueError at run time (the algebra checks sizes on every operation).
"""
import ast

from ..harness import RuleOut
from ..index import AnalysisError, norm

UNK = None
ANY = "int"


def reg_width(repo, mod, name, _cache={}):
    k = (mod.name, name)
    if k in _cache:
        return _cache[k]
    w = UNK
    r = repo.lookup(mod.name, name)
    if r and r[0] is not None and r[1][0] == "assign":
        node = r[1][1]
        v = getattr(node, "value", None)
        # only single static bindings
        if len(r[0].bindings.get(name, [])) == 1 and isinstance(v, ast.Call) and isinstance(v.func, ast.Name):
            a = v.args
            if v.func.id == "reg" and len(a) >= 2 and isinstance(a[1], ast.Constant) and isinstance(a[1].value, int):
                w = a[1].value
            elif v.func.id == "reg" and len(a) == 1:
                w = 32
            elif v.func.id == "slc" and len(a) >= 3 and isinstance(a[2], ast.Constant) and isinstance(a[2].value, int):
                w = a[2].value
            elif v.func.id == "cst" and len(a) >= 2 and isinstance(a[1], ast.Constant):
                w = a[1].value
            elif v.func.id == "cst" and len(a) == 1:
                w = 32
    _cache[k] = w
    return w


class Widths:
    def __init__(self, repo, f):
        self.repo, self.f = repo, f
        self.mod = f.mod
        self.params = set(f.params())
        self.locals = {}
        self.consts = {}
        assigned = {}
        for n in ast.walk(f.node):
            if isinstance(n, ast.Assign) and len(n.targets) == 1 and isinstance(n.targets[0], ast.Name):
                assigned.setdefault(n.targets[0].id, []).append(n.value)
            elif isinstance(n, (ast.Assign, ast.AugAssign, ast.For, ast.With)):
                tg = n.targets if isinstance(n, ast.Assign) else [n.target] if isinstance(n, (ast.AugAssign, ast.For)) else [it.optional_vars for it in n.items if it.optional_vars is not None]
                for t in tg:
                    for k in ast.walk(t):
                        if isinstance(k, ast.Name) and isinstance(k.ctx, ast.Store):
                            assigned.setdefault(k.id, []).append(None)
        self.assigned = assigned
        # integer constants: single assignment of an int literal
        for k, vs in assigned.items():
            if len(vs) == 1 and isinstance(vs[0], ast.Constant) and isinstance(vs[0].value, int) and not isinstance(vs[0].value, bool):
                self.consts[k] = vs[0].value
        self._busy = set()

    def intval(self, e):
        if isinstance(e, ast.Constant) and isinstance(e.value, int) and not isinstance(e.value, bool):
            return e.value
        if isinstance(e, ast.Name) and e.id in self.consts:
            return self.consts[e.id]
        if isinstance(e, ast.BinOp) and isinstance(e.op, (ast.Add, ast.Sub, ast.Mult)):
            a, b = self.intval(e.left), self.intval(e.right)
            if a is not None and b is not None:
                return a + b if isinstance(e.op, ast.Add) else a - b if isinstance(e.op, ast.Sub) else a * b
        return None

    def var(self, name):
        if name in self._busy:
            return UNK
        if name in self.locals:
            return self.locals[name]
        vs = self.assigned.get(name)
        if vs is None:
            if name in self.params:
                return UNK
            if name in ("bit0", "bit1"):
                return 1
            return reg_width(self.repo, self.mod, name)
        if name in self.consts:
            return ANY
        self._busy.add(name)
        ws = set()
        for v in vs:
            ws.add(self.w(v) if v is not None else UNK)
        self._busy.discard(name)
        w = ws.pop() if len(ws) == 1 else UNK
        self.locals[name] = w
        return w

    def w(self, e):
        if isinstance(e, ast.Constant):
            return ANY if isinstance(e.value, (int, float)) and not isinstance(e.value, bool) else UNK
        if isinstance(e, ast.Name):
            return self.var(e.id)
        if isinstance(e, ast.Attribute):
            if e.attr in ("length", "size", "v", "value"):
                return ANY
            return UNK
        if isinstance(e, ast.Compare):
            return 1 if len(e.ops) == 1 and not isinstance(e.ops[0], (ast.Is, ast.IsNot, ast.In, ast.NotIn)) and self.w(e.left) not in (ANY,) else UNK
        if isinstance(e, ast.UnaryOp) and isinstance(e.op, (ast.Invert, ast.USub)):
            return self.w(e.operand)
        if isinstance(e, ast.BinOp):
            a, b = self.w(e.left), self.w(e.right)
            if isinstance(e.op, (ast.LShift, ast.RShift, ast.FloorDiv, ast.Mod, ast.Div)):
                return a if a != ANY else UNK
            if isinstance(e.op, ast.Pow):
                return a * 2 if isinstance(a, int) and a == b else UNK
            if isinstance(e.op, (ast.Add, ast.Sub, ast.BitAnd, ast.BitOr, ast.BitXor, ast.Mult)):
                if a == ANY and b == ANY:
                    return ANY
                if a == ANY:
                    return b
                if b == ANY:
                    return a
                if a is UNK or b is UNK:
                    return UNK
                return a if a == b else UNK
            return UNK
        if isinstance(e, ast.Subscript):
            if isinstance(e.value, ast.Name) and e.value.id == "fmap":
                return self.w(e.slice)
            if isinstance(e.slice, ast.Slice) and e.slice.step is None:
                lo = 0 if e.slice.lower is None else self.intval(e.slice.lower)
                hi = self.intval(e.slice.upper) if e.slice.upper is not None else None
                base = self.w(e.value)
                if base == ANY or base is UNK and hi is None:
                    return UNK
                if lo is not None and hi is not None and hi > lo >= 0:
                    return hi - lo
            return UNK
        if isinstance(e, ast.Call):
            fn = e.func
            if isinstance(fn, ast.Name):
                nm = fn.id
                if nm == "fmap" and e.args:
                    return self.w(e.args[0])
                if nm in ("cst", "top", "sym") :
                    k = 1 if nm == "cst" else 0
                    if len(e.args) > k:
                        n = self.intval(e.args[k])
                        return n if isinstance(n, int) and n > 0 else UNK
                    return 32 if nm == "cst" and len(e.args) == 1 and not e.keywords else UNK
                if nm == "mem" and len(e.args) >= 2:
                    n = self.intval(e.args[1])
                    return n if isinstance(n, int) and n > 0 else UNK
                if nm == "tst" and len(e.args) == 3:
                    a, b = self.w(e.args[1]), self.w(e.args[2])
                    if isinstance(a, int):
                        return a
                    return b if isinstance(b, int) else UNK
                if nm in ("ror", "rol") and e.args:
                    return self.w(e.args[0])
                if nm == "composer" and e.args and isinstance(e.args[0], ast.List):
                    ws = [self.w(x) for x in e.args[0].elts]
                    return sum(ws) if all(isinstance(x, int) for x in ws) else UNK
                if nm == "comp" and e.args:
                    n = self.intval(e.args[0])
                    return n if isinstance(n, int) else UNK
                if nm == "op" and len(e.args) == 3:
                    return self.w(e.args[1])
                return UNK
            if isinstance(fn, ast.Attribute):
                if fn.attr in ("zeroextend", "signextend") and e.args:
                    n = self.intval(e.args[0])
                    return n if isinstance(n, int) and n > 0 else UNK
                if fn.attr in ("signed", "unsigned", "simplify", "copy", "eval"):
                    return self.w(fn.value)
                if fn.attr == "bit":
                    return 1
            return UNK
        if isinstance(e, ast.IfExp):
            a, b = self.w(e.body), self.w(e.orelse)
            return a if a == b else UNK
        return UNK


def possible_widths(W, cfgbox, name_node, stmt):
    """set of certain widths the local `name` can have at statement stmt (reaching definitions), or None if any reaching
    definition has an unknown width / is not a plain assignment"""
    from ..cfg import CFG, reaching_defs

    name = name_node.id
    if name not in W.assigned:
        w = W.var(name)
        return {w} if isinstance(w, int) else None
    if cfgbox[0] is None:
        cfgbox[0] = CFG(W.f.node, may_raise=lambda x: False)
    cfg = cfgbox[0]
    nd = cfg.stmt_node.get(id(stmt))
    if nd is None:
        return None
    rd = reaching_defs(cfg, name).get(nd.id, frozenset())
    out = set()
    for d in rd:
        dn = cfg.nodes[d]
        if dn is cfg.entry or not isinstance(dn.ast, ast.Assign) or len(dn.ast.targets) != 1 or not isinstance(dn.ast.targets[0], ast.Name):
            return None
        # width of the defining expression, with the variable itself resolved at its own definition point
        v = dn.ast.value
        saved = W.locals.pop(name, "absent")
        if any(isinstance(k, ast.Name) and k.id == name for k in ast.walk(v)):
            inner = possible_widths(W, cfgbox, name_node, dn.ast) if dn.ast is not stmt else None
            if inner is None or len(inner) != 1:
                if saved != "absent":
                    W.locals[name] = saved
                return None
            W.locals[name] = next(iter(inner))
            w = W.w(v)
            W.locals.pop(name, None)
        else:
            w = W.w(v)
        if saved != "absent":
            W.locals[name] = saved
        if not isinstance(w, int):
            return None
        out.add(w)
    return out or None


def r_widthflow(scope_prefixes, label):
    def rule(repo, tier):
        out = RuleOut(
            "R-WIDTHFLOW",
            "bit-width inference over the semantic functions of amoco/arch (widths certain from env register definitions, cst(v, n) / "
            "top(n) / mem(a, n), constant slices, zero/sign-extension to a constant width, comparisons; Python ints have no width; "
            "everything else is unknown and never reported): where two certain widths must agree -- the two branches of tst(c, a, b), the "
            "operands of + - & | ^, a location and the value stored into it by fmap[loc] = v -- they do; a difference is a definite "
            "'size mismatch' ValueError when the instruction is applied",
        )
        nf = nsite = 0
        for m in repo.modules.values():
            if not m.rel.startswith(scope_prefixes):
                continue
            last = m.name.rsplit(".", 1)[-1]
            if not last.startswith("asm"):
                continue
            for f in m.functions.values():
                if "fmap" not in f.params():
                    continue
                nf += 1
                W = Widths(repo, f)
                cfgbox = [None]
                for n in ast.walk(f.node):
                    pairs = []
                    if isinstance(n, ast.Call) and isinstance(n.func, ast.Name) and n.func.id == "tst" and len(n.args) == 3:
                        pairs.append((n.args[1], n.args[2], "the two branches of `%s`" % norm(n)[:70], n))
                    elif isinstance(n, ast.BinOp) and isinstance(n.op, (ast.Add, ast.Sub, ast.BitAnd, ast.BitOr, ast.BitXor)):
                        pairs.append((n.left, n.right, "the operands of `%s`" % norm(n)[:70], n))
                    elif isinstance(n, ast.Assign) and len(n.targets) == 1 and isinstance(n.targets[0], ast.Subscript) and isinstance(n.targets[0].value, ast.Name) and n.targets[0].value.id == "fmap":
                        pairs.append((n.targets[0].slice, n.value, "location and value of `%s`" % norm(n)[:70], n))
                    for a, b, what, node in pairs:
                        wa, wb = W.w(a), W.w(b)
                        # may-analysis for a local whose definitions disagree: one side certain, the other a plain local some
                        # reaching definition of which has another certain width
                        if (isinstance(wa, int)) != (isinstance(wb, int)):
                            known, other = (wa, b) if isinstance(wa, int) else (wb, a)
                            if isinstance(other, ast.Name) and len(W.assigned.get(other.id, [])) > 1:
                                stmt = node
                                if not isinstance(stmt, ast.stmt):
                                    stmt = next((st for st in ast.walk(f.node) if isinstance(st, ast.stmt) and not isinstance(st, (ast.FunctionDef, ast.If, ast.For, ast.While, ast.With, ast.Try)) and any(x is node for x in ast.walk(st))), None)
                                ps = possible_widths(W, cfgbox, other, stmt) if stmt is not None else None
                                if ps and any(p_ != known for p_ in ps):
                                    nsite += 1
                                    bad = sorted(p_ for p_ in ps if p_ != known)
                                    out.report(m.rel, f.dqual, "widths %d/%s: %s" % (known, bad, norm(node)[:70]), node.lineno, "%s: `%s` is certainly %d bits wide and `%s` can be %s bits wide (one of its reaching definitions): ValueError('size mismatch') on that path" % (what, norm(a if known is wa else b)[:40], known, other.id, bad))
                            continue
                        if isinstance(wa, int) and isinstance(wb, int):
                            nsite += 1
                            if wa != wb:
                                out.report(m.rel, f.dqual, "widths %d/%d: %s" % (wa, wb, norm(node)[:70]), node.lineno, "%s are certainly %d and %d bits wide (`%s` / `%s`): the algebra raises ValueError('size mismatch') when this instruction is applied to a map" % (what, wa, wb, norm(a)[:40], norm(b)[:40]))
                            elif len(out.samples) < 4:
                                out.samples.append({"function": f.dqual, "site": norm(node)[:70], "widths": [wa, wb]})
        out.instances = nsite
        out.nontrivial = {"site%d" % k for k in range(nsite)}
        out.stats["functions"] = nf
        out.stats["sites_with_two_certain_widths"] = nsite
        if nf < 100:
            raise AnalysisError("R-WIDTHFLOW: only %d semantic functions in scope %s" % (nf, label))
        return out

    rule.__name__ = "r_widthflow_%s" % label
    return rule
