"""C08: abstract memory is a last-write-wins byte store -- cache coherence and loss-free restructuring.

R-CACHE  after every edit of a zone's position structure, a cache refresher is reached on every
         path to a normal exit.
R-XFER   restruct/copy/merge loops lose no object.
"""
import ast

from ..cfg import CFG, _walk_no_nested
from ..harness import RuleOut
from ..index import AnalysisError, norm
from . import xfer

MEM = "amoco/system/memory.py"
MUTATORS = ("insert", "pop", "append", "extend", "remove", "sort", "reverse", "clear", "__setitem__", "__delitem__")


def _zone_classes(repo):
    m = repo.mod(MEM)
    if "MemoryZone" not in m.classes:
        raise AnalysisError("anchor vanished: MemoryZone")
    return m


def is_map_expr(e, in_zone_class):
    """does e denote the object list of a zone?  `self._map` only inside MemoryZone; `<other>._map` anywhere."""
    if isinstance(e, ast.Attribute) and e.attr == "_map":
        if isinstance(e.value, ast.Name) and e.value.id == "self":
            return in_zone_class
        return True
    return False


def refresher_names(repo):
    """methods that re-establish the cache: __update_cache, and (one-level summaries, iterated) methods whose body
    calls a refresher at top level or only under for-loops, any earlier `return` being guarded by an emptiness test of the map."""
    m = _zone_classes(repo)
    zone = m.classes["MemoryZone"]
    if "__update_cache" not in zone.methods:
        raise AnalysisError("anchor vanished: MemoryZone.__update_cache")
    # the refresher must recompute from _map and vaddr
    uc = zone.methods["__update_cache"].node
    txt = norm(uc)
    if "_map" not in txt or "vaddr" not in txt or "__cache" not in txt:
        raise AnalysisError("MemoryZone.__update_cache no longer rebuilds __cache from the vaddr of _map entries")
    refreshers = {("MemoryZone", "__update_cache")}
    names = {"__update_cache"}
    # one-level summaries are computed only for the three classes that own zone maps
    # (MemoryZone -> MemoryMap._zones -> mapper.__Mem); a same-named method of an unrelated class
    # (comp.restruct in the expression algebra) is not a cache refresher
    cands = []
    for rel, cname in ((MEM, "MemoryZone"), (MEM, "MemoryMap"), ("amoco/cas/mapper.py", "mapper")):
        c = repo.mod(rel).classes.get(cname)
        if c is None:
            raise AnalysisError("anchor vanished: class %s" % cname)
        for f in c.methods.values():
            cands.append((c, f))
    changed = True
    while changed:
        changed = False
        for c, f in cands:
            if (c.name, f.name) in refreshers or f.name in ("__init__",):
                continue
            if _calls_refresher_unconditionally(f.node, names):
                refreshers.add((c.name, f.name))
                if f.name not in names:
                    names.add(f.name)
                changed = True
    return refreshers, names


def _is_refresher_call(stmt, names):
    if isinstance(stmt, ast.Expr) and isinstance(stmt.value, ast.Call) and isinstance(stmt.value.func, ast.Attribute):
        return stmt.value.func.attr in names
    return False


def _emptiness_guard(stmt):
    """`if len(X._map) == 0: return` / `if not X._map: return`"""
    if not isinstance(stmt, ast.If) or stmt.orelse:
        return False
    if not (len(stmt.body) == 1 and isinstance(stmt.body[0], ast.Return)):
        return False
    t = norm(stmt.test)
    return "_map" in t and ("len(" in t and "== 0" in t or t.startswith("not "))


def _calls_refresher_unconditionally(fnode, names):
    def scan(stmts):
        for s in stmts:
            if _is_refresher_call(s, names):
                return True
            if isinstance(s, ast.For) and scan(s.body):
                return True
            if _emptiness_guard(s):
                continue
            if any(isinstance(n, (ast.Return, ast.Raise)) for n in ast.walk(s)):
                return False
        return False

    return scan(fnode.body)


def edit_events(f, in_zone_class):
    """statements of f that edit the position structure of a zone: list of (stmt ast, description)"""
    ev = []
    fn = f.node
    # loop variables ranging over a map
    mapvars = set()
    for n in ast.walk(fn):
        if isinstance(n, ast.For) and is_map_expr(n.iter, in_zone_class) and isinstance(n.target, ast.Name):
            mapvars.add(n.target.id)

    def elem_of_map(e):
        if isinstance(e, ast.Subscript) and is_map_expr(e.value, in_zone_class):
            return True
        if isinstance(e, ast.Name) and e.id in mapvars:
            return True
        return False

    for stmt in ast.walk(fn):
        if isinstance(stmt, ast.Assign):
            for t in stmt.targets:
                if is_map_expr(t, in_zone_class):
                    ev.append((stmt, "rebinds %s" % norm(t)))
                elif isinstance(t, ast.Subscript) and is_map_expr(t.value, in_zone_class):
                    ev.append((stmt, "item store into %s" % norm(t.value)))
                elif isinstance(t, ast.Attribute) and t.attr == "vaddr" and elem_of_map(t.value):
                    ev.append((stmt, "moves %s" % norm(t)))
        elif isinstance(stmt, ast.AugAssign):
            t = stmt.target
            if is_map_expr(t, in_zone_class) or (isinstance(t, ast.Subscript) and is_map_expr(t.value, in_zone_class)):
                ev.append((stmt, "augmented store into %s" % norm(t)))
            elif isinstance(t, ast.Attribute) and t.attr == "vaddr" and elem_of_map(t.value):
                ev.append((stmt, "moves %s" % norm(t)))
        elif isinstance(stmt, ast.Delete):
            for t in stmt.targets:
                if isinstance(t, ast.Subscript) and is_map_expr(t.value, in_zone_class):
                    ev.append((stmt, "deletes from %s" % norm(t.value)))
        elif isinstance(stmt, (ast.Expr, ast.Assign, ast.Return)):
            pass
    # mutating calls anywhere in a simple statement
    for stmt in ast.walk(fn):
        if not isinstance(stmt, (ast.Expr, ast.Assign, ast.AugAssign, ast.Return)):
            continue
        for c in _walk_no_nested(stmt):
            if isinstance(c, ast.Call) and isinstance(c.func, ast.Attribute):
                if c.func.attr in MUTATORS and is_map_expr(c.func.value, in_zone_class):
                    ev.append((stmt, "%s() on %s" % (c.func.attr, norm(c.func.value))))
                elif c.func.attr in ("trim", "shift") and elem_of_map(c.func.value):
                    ev.append((stmt, "%s() moves %s" % (c.func.attr, norm(c.func.value))))
    # dedupe by stmt identity
    seen = set()
    out = []
    for s, d in ev:
        if id(s) in seen:
            continue
        seen.add(id(s))
        out.append((s, d))
    return out


def r_cache(repo, tier):
    out = RuleOut(
        "R-CACHE",
        "any function that edits the position structure of a MemoryZone (_map insert/del/pop/assign/slice-assign, store "
        "to the vaddr of an entry, trim/shift of an entry) reaches, on every path from that edit to a normal exit, a cache "
        "refresher (__update_cache, a direct store to __cache, or a method summarised as refreshing: restruct & co)",
    )
    m = _zone_classes(repo)
    refreshers, rnames = refresher_names(repo)
    out.stats["refreshers"] = sorted("%s.%s" % r for r in refreshers)
    nfun = 0
    for mod in repo.modules.values():
        for f in mod.functions.values():
            if f.name == "__update_cache":
                continue
            in_zone = f.cls is not None and any(c.name == "MemoryZone" for c in repo.mro(f.cls))
            evs = edit_events(f, in_zone)
            if not evs:
                continue
            nfun += 1
            cfg = CFG(f.node)
            refresh_nodes = set()
            for n in cfg.nodes:
                s = n.ast
                if n.kind != "stmt" or s is None:
                    continue
                if _is_refresher_call(s, rnames):
                    refresh_nodes.add(n.id)
                if isinstance(s, ast.Assign) and any(isinstance(t, ast.Attribute) and t.attr == "__cache" for t in s.targets):
                    refresh_nodes.add(n.id)
            for s, desc in evs:
                node = cfg.stmt_node.get(id(s))
                if node is None:
                    continue
                key = "%s::%s" % (f.key, norm(s)[:80])
                # normal-flow reachability from the edit to EXIT avoiding refreshers
                path = cfg.some_path(node, {cfg.exit.id}, avoid=refresh_nodes - {node.id}, follow=lambda a, b, lab: lab != "exc")
                if node.id in refresh_nodes:
                    path = None
                out.inst(key, {"function": f.key, "edit": desc, "stmt": norm(s)[:80], "refresh_on_all_paths": path is None})
                if path is not None:
                    out.report(
                        f.file,
                        f.dqual,
                        "edit: %s" % norm(s)[:120],
                        s.lineno,
                        "%s, then a normal exit is reachable without refreshing the zone's start-address cache (path %s)" % (desc, cfg.describe_path(path)),
                    )
    out.stats["editing_functions"] = nfun
    if nfun < 6:
        raise AnalysisError("R-CACHE: only %d functions editing a zone map found (6 confirmed)" % nfun)
    # who-may-write __cache
    zone = m.classes["MemoryZone"]
    for f in zone.methods.values():
        for n in ast.walk(f.node):
            if isinstance(n, ast.Attribute) and n.attr == "__cache" and isinstance(n.ctx, ast.Store) and f.name not in ("__init__", "__update_cache", "__setstate__"):
                out.report(f.file, f.dqual, "store __cache", n.lineno, "the cache is written outside __init__/__update_cache")
    return out


# -----------------------------------------------------------------------------------------
XFER_INSTANCES = [
    # (file, function, loop selector, element vars, accumulators, reason)
    (MEM, "MemoryZone.restruct", lambda n: isinstance(n, ast.For) and norm(n.iter) == "self._map", None, {"m"}, "merges contiguous raw objects; every other object must be re-appended"),
    (MEM, "MemoryMap.copy", lambda n: isinstance(n, ast.For) and "_zones" in norm(n.iter), None, {"mm._zones", "mm"}, "every zone is copied into the new map"),
    (MEM, "MemoryMap.merge", lambda n: isinstance(n, ast.For) and "other._zones" in norm(n.iter), None, {"self._zones", "self"}, "every zone of the other map is merged or adopted"),
    (MEM, "mergeparts", lambda n: isinstance(n, ast.While) and "P" in norm(n.test), {"p"}, {"parts"}, "every part is merged into the last raw part or appended"),
]


def r_xfer_c08(repo, tier):
    out = RuleOut(
        "R-XFER",
        "loss-free transfer loops of the memory model: every path through the loop body sinks a value derived from the "
        "loop element into the accumulator, or skips it under a test against the accumulator, or leaves the function",
    )
    for rel, qual, sel, xvars, accs, why in XFER_INSTANCES:
        f = repo.func(rel, qual)
        loop = xfer.find_loop(f.node, sel)
        if loop is None:
            raise AnalysisError("R-XFER: loop instance vanished in %s::%s" % (rel, qual))
        xv = xvars
        if xv is None:
            xv = {n.id for n in ast.walk(loop.target) if isinstance(n, ast.Name)}
        res = xfer.check_loop(f.node, loop, xv, accs)
        out.inst(f.key, {"function": f.key, "loop": norm(loop).split(":")[0][:80], "sinks": res.sinks, "paths": res.npaths, "exempt_dedup": len(res.exempt)})
        if not res.sinks:
            out.report(f.file, f.dqual, "loop %s" % norm(loop).split(":")[0][:80], loop.lineno, "no statement in the loop stores the element into the accumulator %s" % sorted(accs))
        for p in res.bad_paths[:3]:
            out.report(f.file, f.dqual, "loop %s" % norm(loop).split(":")[0][:80], loop.lineno, "a path through the loop body drops the element without storing it into %s: %s" % (sorted(accs), p))
    # MemoryZone.copy: comprehension over self._map copying every object
    f = repo.func(MEM, "MemoryZone.copy")
    ok = False
    for n in ast.walk(f.node):
        if isinstance(n, ast.Assign) and any(isinstance(t, ast.Attribute) and t.attr == "_map" for t in n.targets):
            v = n.value
            if isinstance(v, ast.ListComp) and len(v.generators) == 1 and not v.generators[0].ifs and norm(v.generators[0].iter) == "self._map":
                tv = {x.id for x in ast.walk(v.generators[0].target) if isinstance(x, ast.Name)}
                if xfer.names_in(v.elt) & tv:
                    ok = True
    out.inst(f.key, {"function": f.key, "copy_comprehension_unfiltered": ok})
    if not ok:
        out.report(f.file, f.dqual, "copy of self._map", f.node.lineno, "MemoryZone.copy no longer copies every object of _map (filtered or missing comprehension)")
    return out


# -----------------------------------------------------------------------------------------
def _data_owner(v):
    """the object whose bytes expression v is cut from: 'X' for X.val, X.data.val, X.getpart(..)[..], X.val.bytes(..);
    ('param', name) for a bare name; None if unknown"""
    e = v
    while True:
        if isinstance(e, ast.Subscript):
            e = e.value
        elif isinstance(e, ast.Call) and isinstance(e.func, ast.Attribute) and e.func.attr in ("getpart", "bytes", "to_bytes"):
            e = e.func.value
        else:
            break
    if isinstance(e, ast.Attribute) and e.attr == "val":
        return norm(e.value)
    if isinstance(e, ast.Name):
        if v is e:
            return ("param", e.id)
        return e.id
    return None


def r_endtag(repo, tier):
    out = RuleOut(
        "R-ENDTAG",
        "in the memory model a value and its endianness tag travel together: a datadiv/mo built from bytes cut out of an "
        "object X carries X's own endian tag (X.endian / X.data.endian -> X), a datadiv/mo built from the caller's data "
        "carries the caller's endian argument, and X.val.bytes(...) slices with X.endian",
    )
    m = repo.mod(MEM)
    n_sites = 0
    for f in m.functions.values():
        params = set(f.params())
        for c in ast.walk(f.node):
            if not isinstance(c, ast.Call):
                continue
            fn = norm(c.func)
            V = E = None
            if fn == "datadiv" and len(c.args) >= 2:
                V, E = c.args[0], c.args[1]
            elif fn == "mo" and len(c.args) >= 3:
                V, E = c.args[1], c.args[2]
            elif isinstance(c.func, ast.Attribute) and c.func.attr == "bytes" and isinstance(c.func.value, ast.Attribute) and c.func.value.attr == "val":
                V = c.func.value
                for k in c.keywords:
                    if k.arg == "endian":
                        E = k.value
                if E is None and len(c.args) >= 3:
                    E = c.args[2]
                if E is None:
                    continue
            elif isinstance(c.func, ast.Attribute) and c.func.attr == "write" and len(c.args) >= 2 and isinstance(_data_owner(c.args[1]), str):
                # X.write(addr, <obj>.data.val[, endian]) : re-writing bytes that belong to an existing object
                V = c.args[1]
                E = c.args[2] if len(c.args) >= 3 else None
                for k in c.keywords:
                    if k.arg == "endian":
                        E = k.value
                if E is None:
                    n_sites += 1
                    out.inst("%s::%s" % (f.key, norm(c)[:80]), {"site": "%s:%d" % (f.file, c.lineno), "call": norm(c)[:90], "data_from": _data_owner(V), "tag": None, "ok": False})
                    out.report(f.file, f.dqual, "%s without tag" % norm(c)[:70], c.lineno, "the bytes of %s are written again without their endianness tag: write() defaults to little-endian, so a big-endian value is re-tagged and its sub-range reads come back mirrored" % _data_owner(V))
                    continue
            else:
                continue
            n_sites += 1
            owner = _data_owner(V)
            et = norm(E)
            key = "%s::%s" % (f.key, norm(c)[:80])
            expect = None
            if isinstance(owner, tuple):
                # caller's data: tag must be a bare parameter too (not an attribute of some object)
                ok = isinstance(E, ast.Name) and E.id in params
                expect = "the caller's endian parameter"
            elif owner is None:
                out.undecide(f.file, f.dqual, norm(c)[:100], "data provenance not recognised")
                continue
            else:
                cands = {owner + ".endian"}
                if owner.endswith(".data"):
                    cands.add(owner + ".endian")
                ok = et in cands
                expect = " or ".join(sorted(cands))
            out.inst(key, {"site": "%s:%d" % (f.file, c.lineno), "call": norm(c)[:90], "data_from": owner if not isinstance(owner, tuple) else "parameter " + owner[1], "tag": et, "ok": ok})
            if not ok:
                out.report(f.file, f.dqual, norm(c)[:120], c.lineno, "bytes taken from %s are tagged with endianness %r instead of %s (sub-range reads of that part are sliced from the wrong end for mixed-endian histories)" % (owner if not isinstance(owner, tuple) else "the caller's data", et, expect))
    out.stats["sites"] = n_sites
    if n_sites < 10:
        raise AnalysisError("R-ENDTAG: only %d (value, endian) construction sites found in memory.py (10 confirmed)" % n_sites)
    return out
