"""R-DEFAULTS: default arguments of the core API are part of its contract.

ref/defaults.json records the default value of every defaulted parameter of the functions and methods of the expression
algebra, the mapper, the memory model, the structure layer, the decoder core and the sweep/cfg layer on the reviewed tree
(little endian = 1, offset 0, psize 0 = native, size 32, ...).  Callers all over the code base omit these arguments; a
changed default silently changes what every such call means.  A vanished function/parameter is listed as undecided.
"""
import ast
import json
import os

from .. import VERIF
from ..harness import RuleOut
from ..index import AnalysisError, norm

FILE_PROPS = {
    "amoco/cas/expressions.py": ["C01", "C12", "C13"],
    "amoco/cas/mapper.py": ["C13", "C19"],
    "amoco/system/memory.py": ["C08"],
    "amoco/system/structs/core.py": ["C16"],
    "amoco/system/structs/fields.py": ["C16"],
    "amoco/system/structs/utils.py": ["C16"],
    "amoco/arch/core.py": ["C05", "C11", "C17"],
    "amoco/code.py": ["C18"],
    "amoco/cfg.py": ["C18"],
    "amoco/sa/lsweep.py": ["C18"],
}


def defaults_of(f):
    a = f.node.args
    pos = a.posonlyargs + a.args
    out = {}
    for p, d in zip(pos[len(pos) - len(a.defaults):], a.defaults):
        out[p.arg] = norm(d)
    for p, d in zip(a.kwonlyargs, a.kw_defaults):
        if d is not None:
            out[p.arg] = norm(d)
    return out


def r_defaults(pid):
    def rule(repo, tier):
        out = RuleOut(
            "R-DEFAULTS",
            "every default argument recorded in ref/defaults.json for this property's files (core API of the algebra, mapper, memory, "
            "structure, decoder and sweep layers) still has the recorded value: callers omit these arguments, so a changed default "
            "changes the meaning of every such call",
        )
        with open(os.path.join(VERIF, "ref", "defaults.json")) as fh:
            rows = [r for r in json.load(fh)["rows"] if pid in r["properties"]]
        if not rows:
            raise AnalysisError("R-DEFAULTS: no row for %s" % pid)
        found = 0
        cache = {}
        for r in rows:
            m = repo.mod(r["file"])
            f = m.functions.get(r["function"])
            key = "%s::%s::%s" % (r["file"], r["function"], r["param"])
            if f is None:
                out.inst(key, None, nontrivial=False)
                out.undecide(r["file"], r["function"], r["param"], "function not found again")
                continue
            if f.key not in cache:
                cache[f.key] = defaults_of(f)
            cur = cache[f.key].get(r["param"])
            if cur is None:
                out.inst(key, None, nontrivial=False)
                out.undecide(r["file"], r["function"], r["param"], "parameter no longer has a default / was renamed")
                continue
            found += 1
            out.inst(key, {"function": r["function"], "param": r["param"], "default": cur} if len(out.samples) < 4 else None)
            if cur != r["default"]:
                out.report(r["file"], r["function"], "default %s=%s" % (r["param"], cur), f.node.lineno, "the default of parameter `%s` of %s was `%s` on the reviewed tree and is now `%s`: every call that omits it changes meaning" % (r["param"], r["function"], r["default"], cur))
        out.stats["rows"] = len(rows)
        out.stats["found"] = found
        if found * 10 < len(rows) * 7:
            raise AnalysisError("R-DEFAULTS: only %d of %d recorded defaults found again for %s (inventory is stale: tools/mkdefaults.py)" % (found, len(rows), pid))
        return out

    rule.__name__ = "r_defaults_%s" % pid
    return rule
