"""vstat -- repository-specific static analysis of bdcht/amoco.

Every check parses the *current* working tree under $VERIF_REPO (default /repo)
with the standard library `ast` module.  Nothing in amoco is imported or run.
"""
import os

REPO = os.environ.get("VERIF_REPO", "/repo")
VERIF = os.path.dirname(os.path.dirname(os.path.abspath(__file__)))
