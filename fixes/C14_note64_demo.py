# C14: note headers of 64-bit ELF files use three 4-byte words (Elf64_Nhdr), like 32-bit ones
import sys, os, struct
sys.path.insert(0, os.getcwd())
from amoco.system.elf import Note
data = struct.pack("<III", 4, 16, 1) + b"GNU\0" + bytes(range(16))
n = Note(data, 0, None, True)
ok = (n.namesz, n.descsz, n.n_type) == (4, 16, 1) and n.name == b"GNU\0" and n.desc == bytes(range(16))
if not ok:
    print("64-bit note parsed as namesz=%s descsz=%s type=%s name=%r" % (n.namesz, n.descsz, n.n_type, n.name))
sys.exit(0 if ok else 1)
