# C05: an instruction must not be produced from a buffer that does not contain its immediate/extension word
import sys, os
sys.path.insert(0, os.getcwd())
from amoco.arch.x86 import cpu_x86
from amoco.arch.x64 import cpu_x64
from amoco.arch.msp430 import cpu as msp
bad = 0
for cpu, b in ((cpu_x86, "0fa4c0"), (cpu_x64, "0fa4c0"), (msp, "1042"), (msp, "3040")):
    try:
        i = cpu.disassemble(bytes.fromhex(b))
    except Exception as e:
        print(cpu.__name__, b, "raised", type(e).__name__); bad += 1; continue
    if i is not None:
        print(cpu.__name__, b, "decoded from truncated input as", i, "length", i.length); bad += 1
sys.exit(1 if bad else 0)
