# C08/C01: simplifying a byte-aligned slice of a big-endian memory expression keeps its endianness and byte position
import sys, os
sys.path.insert(0, os.getcwd())
from amoco.cas.expressions import *
p = reg("p", 32)
bad = 0
for endian in (1, -1):
    m = mem(p, 32, endian=endian)
    for pos, size in ((0, 8), (8, 8), (16, 16), (0, 16), (24, 8)):
        want = m[pos:pos + size]
        got = slc(m, pos, size).simplify()
        if str(got) != str(want) or getattr(got, "endian", None) != want.endian:
            print("endian %+d: slc(M32(p),%d,%d).simplify() = %s (endian %s), expected %s (endian %s)" % (endian, pos, size, got, getattr(got, "endian", None), want, want.endian)); bad += 1
sys.exit(1 if bad else 0)
