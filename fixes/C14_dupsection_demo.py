# C14: address-to-section / section queries follow the file's mapping even when section names repeat
import sys, os, struct, io
sys.path.insert(0, os.getcwd())
from amoco.system.core import read_program
# minimal ELF64 relocatable file with two sections both named ".dup" holding different bytes
shstr = b"\0.dup\0.shstrtab\0"
d1, d2 = b"\x11" * 8, b"\x22" * 8
body = d1 + d2 + shstr
shoff = 64 + len(body)
ehdr = b"\x7fELF\x02\x01\x01" + b"\0" * 9 + struct.pack("<HHIQQQIHHHHHH", 1, 62, 1, 0, 0, shoff, 0, 64, 0, 0, 64, 4, 3)
def sh(name, typ, off, size): return struct.pack("<IIQQQQIIQQ", name, typ, 0, 0, off, size, 0, 0, 1, 0)
shdrs = sh(0, 0, 0, 0) + sh(1, 1, 64, 8) + sh(1, 1, 72, 8) + sh(6, 3, 80, len(shstr))
p = read_program(ehdr + body + shdrs)
secs = [s for s in p.Shdr if s.name == ".dup"]
assert len(secs) == 2, [s.name for s in p.Shdr]
got = [bytes(p.readsection(s)) for s in secs]
if got != [d1, d2]:
    print("readsection of two sections named .dup returned", got); sys.exit(1)
sys.exit(0)
