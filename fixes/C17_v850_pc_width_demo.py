# C17: applying a decoded instruction never raises -- v850 returns from exception / CALLT
import sys, os
sys.path.insert(0, os.getcwd())
from amoco.cas.mapper import mapper
import amoco.arch.v850.cpu_v850e2s as c
bad = 0
for bs in (bytes.fromhex('e0074401'), bytes.fromhex('e0074801'), bytes.fromhex('e0074a01')):
    i = c.disassemble(bs)
    if i is None:
        continue
    try:
        i(mapper())
    except Exception as e:
        print(bs.hex(), i.mnemonic, "raises", type(e).__name__, e); bad += 1
sys.exit(1 if bad else 0)
