# C17: decoding never raises -- eBPF register fields 11..15
import sys, os
sys.path.insert(0, os.getcwd())
import amoco.arch.eBPF.cpu as cpu
bad = 0
for op in (0x07, 0x04, 0x05, 0x61, 0x62, 0x63, 0xc3, 0x18):
    for b1 in (0x0b, 0x0f, 0xb1, 0xf1, 0xff):
        bs = bytes([op, b1]) + bytes(14)
        try:
            cpu.disassemble(bs)
        except Exception as e:
            print(bs[:8].hex(), "raises", type(e).__name__, e); bad += 1
sys.exit(1 if bad else 0)
