import sys, os
sys.path.insert(0, os.getcwd())
from amoco.system.structs import *
@StructDefine("""
L *#4/28 : lo/hi
I : tail
""")
class S(StructFormatter):
    pass
data = bytes([0x21,0x43,0x65,0x87, 0xaa,0xbb,0xcc,0xdd, 0x11,0x22,0x33,0x44])
print("size psize=32:", S.size(32), "size default:", S.size())
s = S()
s.unpack(data, 0, 32)
print(hex(s.lo), hex(s.hi), hex(s.tail))
assert s.tail == 0xddccbbaa, hex(s.tail)
assert (s.lo, s.hi) == (1, 0x8765432), (hex(s.lo), hex(s.hi))
