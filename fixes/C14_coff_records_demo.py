# C14: COFF records inside PE objects have the sizes the format fixes (symbol 18, relocation 10, line number 6 bytes)
import sys, os, struct
sys.path.insert(0, os.getcwd())
from amoco.system.pe import COFFSymbolTable, COFFRelocation, COFFLineNumber, AuxFunctionDefinition, Aux_bf_ef, AuxWeakExternal, AuxSectionDefinition, StdSymbolRecord
bad = 0
rec = lambda name, val, sec, typ, cls, naux: struct.pack("<8siHHBB", name, val, sec, typ, cls, naux)
data = rec(b".text\0\0\0", 0, 1, 0, 3, 0) + rec(b"_main\0\0\0", 0x10, 1, 0x20, 2, 0)
try:
    t = COFFSymbolTable(data)
    got = [(s.Value, s.SectionNumber, s.Type) for s in t.symbols]
    if got != [(0, 1, 0), (0x10, 1, 0x20)]:
        print("symbols mis-parsed", got); bad += 1
except Exception as e:
    print("COFFSymbolTable raises", type(e).__name__, e); bad += 1
for cls, want in ((COFFRelocation, 10), (COFFLineNumber, 6), (StdSymbolRecord, 18), (AuxFunctionDefinition, 18), (Aux_bf_ef, 18), (AuxWeakExternal, 18), (AuxSectionDefinition, 18)):
    if cls.size() != want:
        print(cls.__name__, "size", cls.size(), "expected", want); bad += 1
sys.exit(1 if bad else 0)
