from amoco.arch.x64 import cpu_x64 as cpu
try:
    cpu.disassemble(bytes.fromhex("f32ec02d53dda9"))
except Exception as e:
    print("first call raised", type(e).__name__)
i = cpu.disassemble(b"\x90")
print(i.bytes.hex(), i)
assert i.bytes == b"\x90", "prefix bytes from an earlier failing call leaked: %s" % i.bytes.hex()
