# C15: bytes of a loaded segment beyond its file-backed part read as zero
import sys, os
sys.path.insert(0, os.getcwd())
import amoco
from amoco.system.core import read_program
import amoco.system.core as core
bad = 0
here = os.getcwd()
for rel in ("tests/samples/x86/flow.elf", "tests/samples/x64/flow.elf64"):
    path = os.path.join(here, rel)
    p = amoco.load_program(path)
    e = p.bin
    for S in e.Phdr:
        if S.p_type == 1 and S.p_memsz > S.p_filesz:
            a = S.p_vaddr + S.p_filesz
            n = min(S.p_memsz - S.p_filesz, 64)
            got = p.state.mmap.read(a, n)
            raw = b"".join(x if isinstance(x, bytes) else b"?" for x in got)
            if raw != b"\0" * n:
                print(rel, "bss at %#x reads %r instead of zeros" % (a, raw[:24])); bad += 1
path = os.path.join(here, "tests/samples/x86/puttygen.exe") if os.path.exists(os.path.join(here, "tests/samples/x86/puttygen.exe")) else None
import glob
for path in glob.glob(os.path.join(here, "tests/samples/*/*.exe")):
    pe = read_program(path)
    if not hasattr(pe, "sections"): continue
    for s in pe.sections:
        if s.VirtualSize > s.SizeOfRawData and s.SizeOfRawData > 0:
            img = pe.loadsegment(s, raw=True)
            tail = img[s.SizeOfRawData:s.VirtualSize][:32]
            if tail.strip(b"\0"):
                print(os.path.basename(path), s.Name, "tail beyond raw data reads %r instead of zeros" % tail[:16]); bad += 1
sys.exit(1 if bad else 0)
