# C16: packing the unpacked values reproduces the original bytes (alignment padding, bit-fields)
import sys, os
sys.path.insert(0, os.getcwd())
from amoco.system.structs import *
bad = 0
@StructDefine("""
B : a
I : b
H : c
Q : d
""")
class S(StructFormatter): pass
import struct
raw = struct.pack("<BxxxIHxxxxxxQ", 1, 2, 3, 4)
s = S().unpack(raw)
assert (s.a, s.b, s.c, s.d) == (1, 2, 3, 4), (s.a, s.b, s.c, s.d)
out = s.pack()
if out != raw:
    print("pack(unpack(b)) != b:", out.hex(), "vs", raw.hex()); bad += 1
@StructDefine("""
B*#3/5 : x/y
H : z
""")
class T(StructFormatter): pass
raw = bytes([0b10101_011, 0, 7, 0])
t = T().unpack(raw)
try:
    out = t.pack()
    if out != raw:
        print("bitfield pack differs:", out.hex(), raw.hex()); bad += 1
except AttributeError as e:
    print("packing a structure with a bit-field raised AttributeError:", e); bad += 1
sys.exit(1 if bad else 0)
