# C20: read_program reports malformed content only through format errors and terminates
import sys, os, struct, signal
sys.path.insert(0, os.getcwd())
from amoco.system.core import read_program, DataIO
import amoco.system.core as core
bad = 0
def ident(data, what):
    global bad
    signal.alarm(10)
    try:
        p = read_program(data)
    except BaseException as e:
        print(what, "->", type(e).__name__, e); bad += 1
    finally:
        signal.alarm(0)
def onalarm(*a): raise TimeoutError("identification did not terminate within 10 s")
signal.signal(signal.SIGALRM, onalarm)
# 1. truncated ELF header
ident(b"\x7fELF\x01\x01\x01" + b"\0" * 13, "20-byte ELF prefix")
# 2. HEX: extended-segment-address record with a wrong byte count (valid checksum)
ident(b":0100000200FD\n:00000001FF\n", "HEX type-02 record with count 1")
# 3. Mach-O with a load command of cmdsize 0
hdr = struct.pack("<IiiIIII", 0xfeedface, 7, 3, 2, 1, 8, 0) + struct.pack("<II", 0x7ffffff0, 0)
ident(hdr, "Mach-O load command with cmdsize 0")
sys.exit(1 if bad else 0)
