# C01: unsigned comparisons and (b != bit0); C12: x ** 1 keeps the doubled width
import sys, os
sys.path.insert(0, os.getcwd())
from amoco.cas.expressions import *
bad = 0
r = ltu(cst(0xffffffff, 32), cst(1, 32))
if r.v != 0: print("ltu(0xffffffff,1) =", r, "(unsigned: must be 0)"); bad += 1
r = geu(cst(0xffffffff, 32), cst(1, 32))
if r.v != 1: print("geu(0xffffffff,1) =", r, "(unsigned: must be 1)"); bad += 1
r = op(OP_LTU, cst(0x80000000, 32), cst(1, 32)).eval(None) if False else oper(OP_LTU, cst(0x80000000, 32), cst(1, 32))
if r.v != 0: print("oper(OP_LTU, 0x80000000, 1) =", r); bad += 1
a, b = reg("a", 32), reg("b", 32)
c = (a < b)
e = oper(OP_NEQ, c, cst(0, 1))
if str(e) != str(c): print("((a<b) != bit0) simplified to", e, "instead of", c); bad += 1
e = oper(OP_NEQ, c, cst(1, 1))
if str(e) != str(~c): print("((a<b) != bit1) simplified to", e, "instead of", ~c); bad += 1
e = a ** cst(1, 32)
if e.size != 64: print("a ** 1 has size", e.size, "instead of 64"); bad += 1
sys.exit(1 if bad else 0)
