# C17: a decoded instruction survives a pickle round-trip unchanged (including the setup function of its spec)
import sys, os, pickle
sys.path.insert(0, os.getcwd())
from amoco.arch.x86 import cpu_x86 as cpu
bad = 0
for b in ("0f58c1", "660f58c1", "f30f58c1", "f20f58c1"):
    i = cpu.disassemble(bytes.fromhex(b))
    j = pickle.loads(pickle.dumps(i))
    if j.spec.hook is not i.spec.hook:
        print(b, i.mnemonic, "spec hook", i.spec.hook.__name__, "became", j.spec.hook.__name__ if j.spec.hook else None); bad += 1
sys.exit(1 if bad else 0)
