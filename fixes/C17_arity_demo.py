# C17: decoding / applying never raises (TypeError from calls with a wrong number of arguments)
import sys, os
sys.path.insert(0, os.getcwd())
from amoco.cas.mapper import mapper
bad = 0
import amoco.arch.x86.cpu_x86 as x86, amoco.arch.x64.cpu_x64 as x64, amoco.arch.superh.cpu_sh2 as sh2
for cpu, h in ((x86, "0fc730"), (x64, "0fc730")):
    try:
        cpu.disassemble(bytes.fromhex(h))
    except Exception as e:
        print(cpu.__name__, h, "raises", type(e).__name__, e); bad += 1
for h in ("436d", "492c", "4010"):
    try:
        i = sh2.disassemble(bytes.fromhex(h)); m = mapper(); i(m)
        print(i, "|", m[i.operands[-1]])
    except Exception as e:
        print("sh2", h, "raises", type(e).__name__, e); bad += 1
sys.exit(1 if bad else 0)
