# C13: operands keep their meaning; pickled ext keeps its attributes; C12/C17: cfp has a sign flag
import sys, os, pickle
sys.path.insert(0, os.getcwd())
from amoco.cas.expressions import *
bad = 0
c = cst(-1, 32); ltu(c, cst(1, 32)); 
if (c < 0).v != 1: print("ltu() changed its operand: cst(-1,32) < 0 is now", c < 0); bad += 1
c = cst(-1, 32); geu(c, cst(1, 32));
if (c < 0).v != 1: print("geu() changed its operand"); bad += 1
try:
    y = cfp(1.0, 32) + reg("b", 32)
except AttributeError as e:
    print("cfp + reg raised", e); bad += 1
x = ext("foo", size=32)
y = pickle.loads(pickle.dumps(x))
for at in ("stub", "operands", "misc", "type", "address"):
    if not hasattr(y, at): print("unpickled ext lost attribute", at); bad += 1
l = pickle.loads(pickle.dumps(lab("bar", size=32)))
if not hasattr(l, "operands"): print("unpickled lab lost attribute operands"); bad += 1
sys.exit(1 if bad else 0)
