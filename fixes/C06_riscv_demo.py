# C06 (RISC-V): AUIPC is relative to the instruction's own address; JALR reads rs1 before writing rd;
# RV64I shift-immediates take a 6-bit shamt
import sys, os
sys.path.insert(0, os.getcwd())
from amoco.cas.mapper import mapper
from amoco.cas.expressions import cst
bad = 0
for name in ("cpu_rv32i", "cpu_rv64i"):
    cpu = __import__("amoco.arch.riscv." + name, fromlist=["x"])
    sz = cpu.pc.size
    def run(word, regs):
        i = cpu.disassemble(word.to_bytes(4, "little"))
        assert i is not None, "%08x does not decode" % word
        m = mapper()
        m[cpu.pc] = cst(0x1000, sz)
        for r, v in regs.items():
            m[getattr(cpu, r)] = cst(v, sz)
        i.address = cst(0x1000, sz)
        i(m)
        return i, m
    # auipc ra, 0x1  -> ra = 0x1000 + 0x1000
    i, m = run(0x00001097, {})
    v = m(cpu.ra)
    if v.v != 0x2000: print(name, "auipc ra,0x1 at 0x1000 gives ra =", v, "(expected 0x2000)"); bad += 1
    if m(cpu.pc).v != 0x1004: print(name, "auipc: pc =", m(cpu.pc)); bad += 1
    # jalr ra, ra, 0 with ra = 0x2000 -> pc = 0x2000, ra = 0x1004
    i, m = run(0x000080e7, {"ra": 0x2000})
    if m(cpu.pc).v != 0x2000 or m(cpu.ra).v != 0x1004:
        print(name, "jalr ra,ra,0 with ra=0x2000 gives pc=%s ra=%s (expected pc=0x2000 ra=0x1004)" % (m(cpu.pc), m(cpu.ra))); bad += 1
if True:
    from amoco.arch.riscv import cpu_rv64i as cpu
    i = cpu.disassemble((0x02051513).to_bytes(4, "little"))   # slli a0,a0,32
    if i is None or i.mnemonic != "SLLI" or int(i.operands[2]) != 32:
        print("rv64i: slli a0,a0,32 (02051513) decodes as", i); bad += 1
    i = cpu.disassemble((0x43f55513).to_bytes(4, "little"))   # srai a0,a0,63
    if i is None or i.mnemonic != "SRAI" or int(i.operands[2]) != 63:
        print("rv64i: srai a0,a0,63 (43f55513) decodes as", i); bad += 1
sys.exit(1 if bad else 0)
