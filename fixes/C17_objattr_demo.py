# C17: applying a decoded instruction to a map never raises -- attribute reads with no writer
import sys, os
sys.path.insert(0, os.getcwd())
from amoco.cas.mapper import mapper
import amoco.arch.arm.cpu_armv8 as a8, amoco.arch.sparc.cpu_v8 as sp
bad = 0
for cpu, bs in ((a8, bytes.fromhex('207c029b')), (a8, bytes.fromhex('20fc029b')),
                (sp, ((3<<30)|(2<<25)|(0b000011<<19)|(1<<14)).to_bytes(4,'big')),
                (sp, ((3<<30)|(2<<25)|(0b000111<<19)|(1<<14)).to_bytes(4,'big'))):
    i = cpu.disassemble(bs)
    try:
        m = mapper(); i(m)
    except Exception as e:
        print(cpu.__name__, bs.hex(), i.mnemonic, "raises", type(e).__name__, e); bad += 1
sys.exit(1 if bad else 0)
