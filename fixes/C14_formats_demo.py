# C14: S-record checksum rejection, HEX/SREC entry point, Elf/MachO address->file offset queries
import sys, os, io
sys.path.insert(0, os.getcwd())
bad = 0
from amoco.system.structs.SREC import SREC, SRECline, SRECError
from amoco.system.structs.HEX import HEX
good = b"S1137AF00A0A0D0000000000000000000000000061"
assert SRECline(good).cksum == 0x61
try:
    SRECline(good[:-2] + b"62")
    print("S-record with a wrong checksum was accepted"); bad += 1
except SRECError:
    pass
class F(io.BytesIO):
    name = "mem"
s = SREC(F(b"S1137AF00A0A0D0000000000000000000000000061\nS9037AF092\n"))
if s.entrypoints != [0x7AF0]:
    print("SREC start address record S9 7AF0 -> entrypoints", s.entrypoints); bad += 1
h = HEX(F(b":0400000500001234B1\n:00000001FF\n"))
if h.entrypoints != [0x1234]:
    print("HEX start linear address 0x1234 -> entrypoints", h.entrypoints); bad += 1
from amoco.system.elf import Elf
here = os.path.join(os.getcwd(), "tests", "samples", "x86", "flow.elf")
from amoco.system.core import DataIO
with open(here, "rb") as f0:
    f = DataIO(f0)
    e = Elf(f)
    ep = e.entrypoints[0]
    try:
        off = e.getfileoffset(ep)
        sec = [s for s in e.Shdr if s.sh_addr <= ep < s.sh_addr + s.sh_size and s.sh_type == 1][0]
        if off != sec.sh_offset + (ep - sec.sh_addr):
            print("Elf.getfileoffset(entry) =", off, "expected", sec.sh_offset + (ep - sec.sh_addr)); bad += 1
    except Exception as ex:
        print("Elf.getfileoffset(entry) raised", type(ex).__name__, ex); bad += 1
sys.exit(1 if bad else 0)
