"""Development-time validation (NOT a registered check): compare vstat's independent
format interpreter with the fix/mask that the real ispec.buildspec computes, for every
shipped spec.  Run: /venv/bin/python tools/validate_ispecmodel.py"""
import importlib, sys, collections
sys.path.insert(0, "/verif")
from vstat.index import get_repo
from vstat.rules.spec import specs

repo = get_repo()
decls, _ = specs(repo)
bymod = collections.defaultdict(list)
for s in decls:
    bymod[s.func.mod.name].append(s)
bad = tot = 0
for mod, lst in sorted(bymod.items()):
    try:
        m = importlib.import_module(mod)
    except Exception as e:
        print("IMPORT-FAIL", mod, type(e).__name__, e); continue
    real = collections.defaultdict(list)
    for sp in m.ISPECS:
        real[sp.format].append(sp)
    for s in lst:
        if s.model is None:
            continue
        for sp in real.get(s.format, []):
            tot += 1
            fx, mk = s.model.fix_mask()
            if sp.fix.ival != fx or sp.mask.ival != mk or sp.fix.size != s.model.size:
                bad += 1
                print("MISMATCH", mod, s.format, hex(fx), hex(sp.fix.ival), hex(mk), hex(sp.mask.ival))
            break
print("compared", tot, "mismatches", bad)
