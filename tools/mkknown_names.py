"""Development-time helper: attach a concrete witness (from tools/fuzz_witness.py output)
to each C17 R-NAME/R-MODATTR report and print `known:` lines."""
import json, sys, re
sys.path.insert(0, "/verif")
from vstat.index import get_repo
from vstat.rules import c17
repo = get_repo()
fz = json.load(open(sys.argv[1]))
obs = {}
for cpu, d in fz.items():
    for k, v in d.items():
        parts = k.split("::")
        if len(parts) < 4: continue
        obs.setdefault((parts[0], parts[1], parts[2]), []).append((parts[3], v))
outs = [c17.r_name_c17(repo, "quick"), c17.r_modattr_c17(repo, "quick")]
nw = 0
for o in outs:
    for rep in o.reports:
        fn = rep.func.split(".")[-1]
        w = None
        for et in ("NameError", "AttributeError", "UnboundLocalError"):
            for msg, v in obs.get((rep.file, fn, et), []):
                nm = rep.construct.split(".")[-1]
                if "'%s'" % nm in msg:
                    w = (et, msg, v); break
            if w: break
        if w:
            nw += 1
            et, msg, v = w
            wit = "%s.disassemble(bytes.fromhex('%s')) then %s -> %s: %s" % (v["cpu"], v["bytes"], v["stage"], et, msg)
        else:
            wit = "call site %s:%s (static: the name is bound in no scope, so executing the line raises)" % (rep.file, rep.line)
        print("known: property=C17 rule=%s key=%s | witness=%s | %s" % (rep.rule, rep.key, wit, rep.msg.split(" (")[0]))
print("# with dynamic witness:", nw, file=sys.stderr)
