"""Re-run every claimed quick check against every recorded seeded change (scratch worktree per seed,
removed afterwards) and refresh detected_by in its meta.json.  usage: recheck_seeds.py [filter]"""
import json, os, subprocess, sys, tempfile, shutil
from concurrent.futures import ThreadPoolExecutor
flt = sys.argv[1] if len(sys.argv) > 1 else ""
seeds = sorted(d for d in os.listdir("/verif/seeded") if flt in d and not d.startswith("benign-") and os.path.isdir("/verif/seeded/" + d))
checks = json.load(open("/verif/MANIFEST.json"))["checks"]
def one(d):
    wt = tempfile.mkdtemp(prefix="reseed-"); os.rmdir(wt)
    try:
        r = subprocess.run(["git", "-C", "/repo", "worktree", "add", "--detach", wt, "HEAD"], capture_output=True, text=True)
        r = subprocess.run(["git", "-C", wt, "apply", "/verif/seeded/%s/patch.diff" % d], capture_output=True, text=True)
        if r.returncode:
            return d, None, "patch no longer applies: " + r.stderr[-200:]
        fired = {}
        for c in checks:
            env = dict(os.environ, VERIF_REPO=wt, VERIF_EVIDENCE_DIR=os.path.join(wt, ".ev"))
            r = subprocess.run(c["quick_cmd"], shell=True, cwd="/verif", env=env, capture_output=True, text=True)
            if r.returncode == 1:
                reps = [l[:300] for l in r.stdout.splitlines() if l.startswith("REPORT") or "ANALYSIS-ERROR" in l]
                fired[c["property_id"]] = {"rc": r.returncode, "reports": reps[:3]}
        return d, fired, None
    finally:
        subprocess.run(["git", "-C", "/repo", "worktree", "remove", "--force", wt], capture_output=True)
        shutil.rmtree(wt, ignore_errors=True)
with ThreadPoolExecutor(8) as ex:
    for d, fired, err in ex.map(one, seeds):
        mp = "/verif/seeded/%s/meta.json" % d
        meta = json.load(open(mp))
        if err:
            print(d, "ERROR", err); continue
        meta["detected_by"] = sorted(fired)
        meta["detection_detail"] = fired
        json.dump(meta, open(mp, "w"), indent=1)
        print("%-8s detected_by=%s %s" % (d, sorted(fired), " | ".join(x[:140] for v in fired.values() for x in v["reports"][:1])))
