"""Verify a seeded change produced by a sub-agent and record it under /verif/seeded/.

usage: verify_seed.py <pid> <X>      (reads /tmp/seed-<pid>/<X>/{patch.diff,demo.py,meta.json})
Steps (all in a scratch worktree outside /repo and /verif, removed afterwards):
  1. demo on the unmodified tree  -> must exit 0
  2. git apply patch; byte-compile -> must compile
  3. existing test-suite           -> must be 214 passed
  4. demo with the change          -> must exit non-zero
  5. every claimed vstat check with VERIF_REPO=<worktree> -> which properties fire
"""
import json, os, shutil, subprocess, sys, tempfile, re

pid, X = sys.argv[1], sys.argv[2]
rnd = sys.argv[3] if len(sys.argv) > 3 else ""
src = "/tmp/seed%s-%s/%s" % (rnd, pid, X)
dst = "/verif/seeded/%s-%s%s" % (pid, ("r%s" % rnd) if rnd else "", X)
wt = tempfile.mkdtemp(prefix="seedwt-")
os.rmdir(wt)
def run(cmd, cwd=None, env=None, timeout=1800):
    return subprocess.run(cmd, cwd=cwd, env=env, shell=isinstance(cmd, str), capture_output=True, text=True, timeout=timeout)
res = {"property": pid, "variant": X}
try:
    r = run(["git", "-C", "/repo", "worktree", "add", "--detach", wt, "HEAD"]); assert r.returncode == 0, r.stderr
    demo = os.path.join(src, "demo.py")
    r = run(["/venv/bin/python", demo], cwd=wt); res["demo_without_change_rc"] = r.returncode
    r = run(["git", "-C", wt, "apply", os.path.join(src, "patch.diff")]); res["patch_applies"] = r.returncode == 0
    if r.returncode: res["apply_err"] = r.stderr[-300:]
    r = run(["/venv/bin/python", "-m", "compileall", "-q", "amoco"], cwd=wt); res["compiles"] = r.returncode == 0
    r = run(["/venv/bin/python", "-m", "pytest", "-q", "-p", "no:cacheprovider", "-x", "--timeout=900"], cwd=wt)
    m = re.search(r"(\d+) passed", r.stdout); res["tests_passed"] = int(m.group(1)) if m else 0
    res["tests_failed"] = "failed" in r.stdout.splitlines()[-1] if r.stdout.strip() else True
    r = run(["/venv/bin/python", demo], cwd=wt); res["demo_with_change_rc"] = r.returncode
    res["demo_with_change_tail"] = (r.stdout + r.stderr)[-300:]
    # our checks
    from_props = json.load(open("/verif/MANIFEST.json"))["checks"]
    fired = {}
    for c in from_props:
        p = c["property_id"]
        env = dict(os.environ, VERIF_REPO=wt, VERIF_EVIDENCE_DIR=os.path.join(wt, ".ev"))
        r = run(c["quick_cmd"], cwd="/verif", env=env)
        reps = [l for l in r.stdout.splitlines() if l.startswith("REPORT")]
        if r.returncode == 1:
            fired[p] = {"rc": r.returncode, "reports": [x[:300] for x in reps[:3]] or [l for l in r.stdout.splitlines() if "ANALYSIS-ERROR" in l][:2]}
    res["checks_firing"] = fired
    res["valid"] = bool(res["patch_applies"] and res["compiles"] and res["tests_passed"] >= 214 and not res["tests_failed"] and res["demo_without_change_rc"] == 0 and res["demo_with_change_rc"] != 0)
finally:
    run(["git", "-C", "/repo", "worktree", "remove", "--force", wt])
    shutil.rmtree(wt, ignore_errors=True)
print(json.dumps(res, indent=1))
if res.get("valid"):
    os.makedirs(dst, exist_ok=True)
    for f in ("patch.diff", "demo.py"):
        shutil.copy(os.path.join(src, f), os.path.join(dst, f))
    meta = json.load(open(os.path.join(src, "meta.json")))
    meta["verified"] = {k: res[k] for k in ("demo_without_change_rc", "demo_with_change_rc", "tests_passed", "compiles")}
    meta["ran"] = "tools/verify_seed.py %s %s: scratch worktree of /repo HEAD; demo before patch; git apply; compileall; pytest -q (214 passed); demo after patch; all claimed vstat quick checks with VERIF_REPO=<worktree>" % (pid, X)
    meta["detected_by"] = sorted(fired)
    meta["detected_at_first_run"] = sorted(fired)
    meta["first_run_verif_commit"] = subprocess.run(["git", "-C", "/verif", "rev-parse", "--short", "HEAD"], capture_output=True, text=True).stdout.strip()
    meta["round"] = rnd or "1"
    meta["detection_detail"] = fired
    json.dump(meta, open(os.path.join(dst, "meta.json"), "w"), indent=1)
    print("recorded in", dst)
