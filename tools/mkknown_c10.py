"""Development-time helper: print `known:` lines for the C10 reports, attaching an observed in-place mutation
(tools/fuzz_shmut.py output) as witness when one exists for the function."""
import json, sys
sys.path.insert(0, "/verif")
from vstat.index import get_repo
from vstat.rules import c10
repo = get_repo()
obs = {}
for cpu, d in json.load(open(sys.argv[1])).items():
    for k, v in d.items():
        obs.setdefault(k.split(":")[1], []).append((cpu, k.split(":")[0], v))
seen = set()
for o in (c10.r_shmut(repo, "quick"), c10.r_globalw_sem(repo, "quick")):
    for rep in o.reports:
        if rep.key in seen: continue
        seen.add(rep.key)
        fn = rep.func.split(".")[-1]
        w = None
        for cpu, stage, v in obs.get(fn, []):
            # the cpu must belong to the same ISA directory
            isa = rep.file.split("/")[2]
            if isa in cpu:
                w = "%s.disassemble(bytes.fromhex('%s')) then %s: %s" % (cpu, v["bytes"], "i(mapper())" if stage == "exec" else "decode only", "; ".join(v["changes"][:2]))
                break
        if w is None:
            w = "call site %s:%s (static: the receiver is %s)" % (rep.file, rep.line, rep.msg.split("(")[1].split(")")[0] if "(" in rep.msg else "shared")
        what = "in-place mutation of a shared expression object: stored maps/expressions containing it change their signed/width denotation" if o.rule == "R-SHMUT" else "symbolic execution writes process-global state"
        print("known: property=C10 rule=%s key=%s | witness=%s | %s" % (o.rule, rep.key, w, what))
