"""Regenerate MANIFEST.json from vstat.props (claimed) and vstat.na (not applicable)."""
import json, sys, os
sys.path.insert(0, os.path.dirname(os.path.dirname(os.path.abspath(__file__))))
from vstat.props import PROPS
from vstat.na import NOT_APPLICABLE, NOT_BUILT

checks = []
for pid, p in sorted(PROPS.items()):
    checks.append({
        "property_id": pid,
        "quick_cmd": "/venv/bin/python -m vstat check %s --tier quick" % pid,
        "thorough_cmd": "/venv/bin/python -m vstat check %s --tier thorough" % pid,
        "evidence_file": "/verif/evidence/%s.json" % pid,
        "replay_cmd_template": "/venv/bin/python -m vstat explain {path}",
        "engine": "vstat",
        "level_claimed": {
            "category": "other",
            "text": p["level_text"],
            "design_ref": "DESIGN.md section 4, %s" % pid,
        },
        "level_note": p["level_note"],
        "technique": p["technique"],
    })
na = [{"property_id": k, "reason": v} for k, v in sorted({**NOT_APPLICABLE, **{k: v for k, v in NOT_BUILT.items() if k not in PROPS}}.items())]
man = {
    "version": 1,
    "setup_cmd": "/venv/bin/python -m compileall -q vstat && /venv/bin/python -m vstat controls",
    "hooks": {
        "guard": "BDCHT_AMOCO_VERIF",
        "enable": "none needed: every check reads /repo's source with ast and never imports or runs amoco; no guarded commit exists",
        "baseline_off_cmd": "cd /repo && /venv/bin/python -m pytest -ra -q -p no:cacheprovider --timeout=900 --continue-on-collection-errors",
        "source_commits": [],
        "add_only": True,
    },
    "engines": [{
        "name": "vstat",
        "path": "/verif/vstat",
        "serves_properties": sorted(PROPS),
        "kind_free_text": "repository-specific static analysis on the Python ast of /repo's working tree: module/star-import index, scope resolution, ispec format interpreter, statement CFG with exception edges, name-resolved call graph, StructDefine layout model; rules are table/reference comparisons, who-may-write, pairing and must-pass-through on CFGs",
    }],
    "checks": checks,
    "not_applicable": na,
    "notes": "All checks are static (source is parsed, never executed). Exit 0 = rule instances all hold or are listed in KNOWN_FINDINGS.txt; 1 = VIOLATION; 2 = ANALYSIS-ERROR (anchor vanished / floor not met). Each claim is a necessary-condition clause of the behavioural property; DESIGN.md section 4 says what is and is not decided.",
}
json.dump(man, open(os.path.join(os.path.dirname(os.path.dirname(os.path.abspath(__file__))), "MANIFEST.json"), "w"), indent=1)
print("checks:", [c["property_id"] for c in checks], "na:", [n["property_id"] for n in na])
