"""print the markdown table of seeded changes of one round from seeded/*/meta.json. usage: seedtable.py <round>"""
import json, os, re, sys
rnd = sys.argv[1]
rows = []
for d in sorted(os.listdir("/verif/seeded")):
    mp = "/verif/seeded/%s/meta.json" % d
    if not os.path.exists(mp) or d.startswith("benign-"):
        continue
    m = json.load(open(mp))
    if str(m.get("round", "1")) != rnd:
        continue
    first = m.get("detected_at_first_run", [])
    now = m.get("detected_by", [])
    rule = ""
    for v in m.get("detection_detail", {}).values():
        for r in v.get("reports", []):
            mm = re.match(r"REPORT (R-[A-Z0-9]+)", r)
            if mm:
                rule = mm.group(1)
                break
        if rule:
            break
    when = "as built" if first else ("after strengthening" if now else "-")
    summ = " ".join(m.get("summary", "").split())[:150].replace("|", "/")
    rows.append("| %s | %s | %s | %s | %s |" % (d, summ, ",".join(now) if now else "**missed**", rule or "-", when))
print("| seed | change (start of the author's summary) | detected by | rule | when |\n|---|---|---|---|---|")
print("\n".join(rows))
first = sum(1 for r in rows if "as built" in r); now = sum(1 for r in rows if "missed" not in r)
print("\n%d changes; detected as built: %d; detected now: %d" % (len(rows), first, now))
