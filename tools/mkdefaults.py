"""(re)generate ref/defaults.json (see vstat/rules/defaults.py).  Run by hand after reviewing an API change; never at check time."""
import json, sys
sys.path.insert(0, "/verif")
from vstat.index import get_repo
from vstat.rules.defaults import FILE_PROPS, defaults_of
repo = get_repo()
rows = []
for rel, props in sorted(FILE_PROPS.items()):
    m = repo.mod(rel)
    for f in sorted(m.functions.values(), key=lambda f: f.node.lineno):
        if "#" in f.qual or "<locals>" in f.qual:
            continue
        for p, d in defaults_of(f).items():
            rows.append({"file": rel, "function": f.qual, "param": p, "default": d, "properties": props})
json.dump({"comment": "default-argument inventory (see vstat/rules/defaults.py)", "rows": rows}, open("/verif/ref/defaults.json", "w"), indent=1)
print(len(rows), "rows")
