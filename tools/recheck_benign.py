"""Apply every recorded behaviour-preserving refactoring (seeded/benign-*) to a scratch worktree and run all quick checks:
any exit 1 is a false alarm, exit 2 an anchor that did not survive the refactoring.  usage: recheck_benign.py [filter]"""
import json, os, subprocess, sys, tempfile, shutil
from concurrent.futures import ThreadPoolExecutor
flt = sys.argv[1] if len(sys.argv) > 1 else ""
seeds = sorted(d for d in os.listdir("/verif/seeded") if d.startswith("benign-") and flt in d)
checks = json.load(open("/verif/MANIFEST.json"))["checks"]
def one(d):
    wt = tempfile.mkdtemp(prefix="rebenign-"); os.rmdir(wt)
    try:
        subprocess.run(["git", "-C", "/repo", "worktree", "add", "--detach", wt, "HEAD"], capture_output=True, text=True)
        r = subprocess.run(["git", "-C", wt, "apply", "/verif/seeded/%s/patch.diff" % d], capture_output=True, text=True)
        if r.returncode:
            return d, None, "patch no longer applies"
        out = {}
        for c in checks:
            env = dict(os.environ, VERIF_REPO=wt, VERIF_EVIDENCE_DIR=os.path.join(wt, ".ev"))
            r = subprocess.run(c["quick_cmd"], shell=True, cwd="/verif", env=env, capture_output=True, text=True)
            if r.returncode != 0:
                out[c["property_id"]] = (r.returncode, [l[:230] for l in r.stdout.splitlines() if l.startswith(("REPORT", "ANALYSIS-ERROR"))][:2])
        return d, out, None
    finally:
        subprocess.run(["git", "-C", "/repo", "worktree", "remove", "--force", wt], capture_output=True)
        shutil.rmtree(wt, ignore_errors=True)
n1 = n2 = clean = 0
with ThreadPoolExecutor(6) as ex:
    for d, out, err in ex.map(one, seeds):
        if err:
            print(d, "ERROR", err); continue
        mp = "/verif/seeded/%s/meta.json" % d
        meta = json.load(open(mp)); meta["alarms_now"] = {k: v[0] for k, v in out.items()}; json.dump(meta, open(mp, "w"), indent=1)
        if not out:
            clean += 1
        n1 += any(v[0] == 1 for v in out.values()); n2 += any(v[0] == 2 for v in out.values()) and not any(v[0] == 1 for v in out.values())
        for k, v in out.items():
            print("%-16s %s rc=%d %s" % (d, k, v[0], (v[1] or [""])[0]))
print("benign patches: %d; silent: %d; with a false alarm (exit 1): %d; only analysis errors (exit 2): %d" % (len(seeds), clean, n1, n2))
