"""Development-time triage helper (NOT a registered check, not part of any verdict).

For every cpu module: for every shipped spec build words with the spec's fixed bits and
random free bits, decode with the real disassembler, render and execute the instruction,
and record each distinct crash (innermost amoco frame, exception type, message) with the
first input that triggered it.  Output: JSON on stdout / file, used to attach concrete
witnesses to statically derived findings in KNOWN_FINDINGS.txt.
"""
import importlib, sys, json, random, traceback, os, collections
from multiprocessing import Pool
sys.path.insert(0, "/verif")

def work(cname):
    import logging
    from vstat.index import get_repo
    from vstat.rules.spec import specs, spec_includes
    from vstat.ispecmodel import cpu_table
    repo = get_repo()
    decls, _ = specs(repo)
    cpus = cpu_table(repo)
    ext = spec_includes(repo)
    ent = cpus[cname]
    found = {}
    try:
        cpu = importlib.import_module(cname)
    except Exception as e:
        return cname, {"IMPORT": {"exc": "%s: %s" % (type(e).__name__, e)}}
    from amoco.cas.mapper import mapper
    from amoco.logger import Log
    logging.disable(logging.CRITICAL)
    mods = set()
    for sm in ent["specmods"]:
        if sm:
            mods.add(sm); mods |= ext.get(sm, set())
    rnd = random.Random(1)
    N = int(os.environ.get("N", "12"))
    def record(stage, w, kw, ex):
        tb = traceback.extract_tb(ex.__traceback__)
        fr = [f for f in tb if "/amoco/" in f.filename]
        f = fr[-1] if fr else tb[-1]
        k = "%s::%s::%s::%s" % (os.path.relpath(f.filename, "/repo"), f.name, type(ex).__name__, str(ex)[:120])
        if k not in found:
            found[k] = {"cpu": cname, "stage": stage, "bytes": w.hex(), "kargs": kw, "line": f.lineno}
    modes = [{}]
    if cname.endswith("cpu_armv7"):
        modes = ["ARM", "THUMB"]
    for s in decls:
        if s.func.mod.name not in mods or s.model is None:
            continue
        fx, mk = s.model.fix_mask()
        nb = s.model.size // 8
        for t in range(N):
            v = (rnd.getrandbits(nb * 8) & ~mk) | fx
            if t == 0: v = fx
            if t == 1: v = fx | (~mk & ((1 << (nb * 8)) - 1))
            w0 = v.to_bytes(nb, "little")
            tail = bytes(rnd.getrandbits(8) for _ in range(16)) if t % 2 else b"\0" * 16
            for w in (w0 + tail, w0[::-1] + tail):
                for md in modes:
                    kw = {}
                    try:
                        if md == "THUMB":
                            cpu.internals["isetstate"] = 1
                        elif md == "ARM":
                            cpu.internals["isetstate"] = 0
                    except Exception:
                        pass
                    try:
                        i = cpu.disassemble(w, **kw)
                    except Exception as ex:
                        record("decode", w, str(md), ex)
                        try:
                            cpu.disassemble._disassembler__i = None
                        except Exception: pass
                        continue
                    if i is None:
                        continue
                    try:
                        str(i); i.toks()
                    except Exception as ex:
                        record("format", w, str(md), ex)
                    try:
                        i.address = cpu.cst(0x1000, cpu.PC().size) if hasattr(cpu, "PC") else None
                    except Exception:
                        pass
                    try:
                        i(mapper())
                    except Exception as ex:
                        record("execute", w, str(md), ex)
    return cname, found

if __name__ == "__main__":
    from vstat.index import get_repo
    from vstat.ispecmodel import cpu_table
    cpus = sorted(cpu_table(get_repo()))
    if len(sys.argv) > 2:
        cpus = [c for c in cpus if sys.argv[2] in c]
    with Pool(16) as p:
        res = dict(p.map(work, cpus))
    json.dump(res, open(sys.argv[1], "w"), indent=1)
    for c, f in res.items():
        print(c, len(f))
