"""(re)generate ref/functions.json: the functions that exist on the reviewed tree.  The inliner (vstat/inline.py) expands only
private helpers that are NOT in this inventory, i.e. helpers introduced after the rules were written."""
import json, sys
sys.path.insert(0, "/verif")
from vstat.index import get_repo
repo = get_repo()
inv = {}
for m in repo.modules.values():
    if m.rel.startswith("amoco/"):
        inv[m.rel] = sorted({f.dqual for f in m.functions.values()})
json.dump({"comment": "see vstat/inline.py", "functions": inv}, open("/verif/ref/functions.json", "w"), indent=0)
print(sum(len(v) for v in inv.values()), "functions")
