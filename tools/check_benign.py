"""Run every claimed quick check on a behaviour-preserving refactoring produced by a sub-agent.
usage: check_benign.py <pid> <A|B> [round]  reads /tmp/seedb[round]-<pid>/<X>/{patch.diff,demo.py,meta.json}, records under seeded/benign-<pid>-<X>/"""
import json, os, shutil, subprocess, sys, tempfile
pid, X = sys.argv[1], sys.argv[2]
rnd = sys.argv[3] if len(sys.argv) > 3 else ""     # "" = first benign round, "2" = second ...
src = "/tmp/seedb%s-%s/%s" % (rnd, pid, X)
dst = "/verif/seeded/benign-%s-%s%s" % (pid, ("r%s" % rnd) if rnd else "", X)
run = lambda cmd, **k: subprocess.run(cmd, capture_output=True, text=True, **k)
wt = tempfile.mkdtemp(prefix="benwt-"); os.rmdir(wt)
res = {"pid": pid, "X": X, "round": rnd or "1"}
try:
    assert run(["git", "-C", "/repo", "worktree", "add", "--detach", wt, "HEAD"]).returncode == 0
    demo = os.path.join(src, "demo.py")
    r0 = run(["/venv/bin/python", demo], cwd=wt)
    a = run(["git", "-C", wt, "apply", os.path.join(src, "patch.diff")]); res["patch_applies"] = a.returncode == 0
    r = run(["/venv/bin/python", "-m", "pytest", "-q", "-p", "no:cacheprovider", "-x", "--timeout=900"], cwd=wt)
    res["tests"] = (r.stdout.strip().splitlines() or ["?"])[-1][:60]
    r1 = run(["/venv/bin/python", demo], cwd=wt)
    strip = lambda t: "\n".join(l for l in t.splitlines() if not l.startswith("[") and wt not in l and "amoco/__init__" not in l)
    res["demo_identical"] = (r0.returncode == r1.returncode == 0) and strip(r0.stdout) == strip(r1.stdout)
    checks = json.load(open("/verif/MANIFEST.json"))["checks"]
    out = {}
    for c in checks:
        env = dict(os.environ, VERIF_REPO=wt, VERIF_EVIDENCE_DIR=os.path.join(wt, ".ev"))
        r = run(c["quick_cmd"], shell=True, cwd="/verif", env=env)
        if r.returncode != 0:
            out[c["property_id"]] = {"rc": r.returncode, "lines": [l[:260] for l in r.stdout.splitlines() if l.startswith(("REPORT", "ANALYSIS-ERROR"))][:4]}
    res["nonzero"] = out
finally:
    run(["git", "-C", "/repo", "worktree", "remove", "--force", wt]); shutil.rmtree(wt, ignore_errors=True)
os.makedirs(dst, exist_ok=True)
for f in ("patch.diff", "demo.py", "meta.json"):
    if os.path.exists(os.path.join(src, f)):
        shutil.copy(os.path.join(src, f), os.path.join(dst, f))
meta = json.load(open(os.path.join(dst, "meta.json"))) if os.path.exists(os.path.join(dst, "meta.json")) else {}
meta["verif_result"] = res
meta["verif_commit"] = subprocess.run(["git", "-C", "/verif", "rev-parse", "--short", "HEAD"], capture_output=True, text=True).stdout.strip()
json.dump(meta, open(os.path.join(dst, "meta.json"), "w"), indent=1)
print("%s-%s applies=%s tests=%s demo_identical=%s alarms=%s" % (pid, X, res.get("patch_applies"), res.get("tests"), res.get("demo_identical"), {k: (v["rc"], [l[:150] for l in v["lines"][:1]]) for k, v in res.get("nonzero", {}).items()}))
