"""run every claimed check (quick by default) and summarise exit codes"""
import json, subprocess, sys, time
from concurrent.futures import ThreadPoolExecutor
tier = sys.argv[1] if len(sys.argv) > 1 else "quick"
checks = json.load(open("/verif/MANIFEST.json"))["checks"]
def one(c):
    t = time.time()
    r = subprocess.run(c["%s_cmd" % tier], shell=True, cwd="/verif", capture_output=True, text=True)
    last = [l for l in r.stdout.splitlines() if l.startswith(c["property_id"])]
    return c["property_id"], r.returncode, time.time() - t, (last[0] if last else r.stdout[-200:])
with ThreadPoolExecutor(8) as ex:
    bad = 0
    for pid, rc, dt, line in ex.map(one, checks):
        print("%s rc=%d %.1fs %s" % (pid, rc, dt, line))
        bad += rc != 0
sys.exit(1 if bad else 0)
