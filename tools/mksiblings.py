"""(re)generate ref/x86_siblings.json: x86/x64 functions identical up to 64-bit register names on the reviewed tree."""
import json, sys
sys.path.insert(0, "/verif")
from vstat.index import get_repo
from vstat.rules.c06 import X86_PAIRS, single_defs, sibling_dump, _REN64
repo = get_repo()
pairs = {}
for rel32, (rel64, _) in X86_PAIRS.items():
    a, b = single_defs(repo.mod(rel32)), single_defs(repo.mod(rel64))
    pairs[rel32] = sorted(k for k in a if k in b and sibling_dump(a[k], {}) == sibling_dump(b[k], _REN64))
    print(rel32, len(pairs[rel32]))
json.dump({"comment": "see vstat/rules/c06.py r_x86sibling", "pairs": pairs}, open("/verif/ref/x86_siblings.json", "w"), indent=1)
