"""Development-time triage helper (NOT a registered check): observe in-place mutation of shared expression
objects (instruction operands, module-level registers) caused by decoding / executing instructions."""
import importlib, sys, json, random, os
from multiprocessing import Pool
sys.path.insert(0, "/verif")

def snap_regs(envs):
    out = {}
    for env in envs:
        for k, v in vars(env).items():
            try:
                if getattr(v, "_is_reg", 0) or getattr(v, "_is_slc", 0):
                    out[(env.__name__, k)] = (v, v.sf, v.size)
                elif isinstance(v, (list, tuple)) and v and getattr(v[0], "_is_reg", 0):
                    for n, e in enumerate(v):
                        out[(env.__name__, "%s[%d]" % (k, n))] = (e, e.sf, e.size)
            except Exception:
                pass
    return out

def diff(snap):
    ch = []
    for k, (o, sf, sz) in snap.items():
        try:
            if o.sf != sf or o.size != sz:
                ch.append("%s.%s sf %s->%s size %s->%s" % (k[0].rsplit(".", 2)[-2] + "." + k[0].rsplit(".", 1)[-1], k[1], sf, o.sf, sz, o.size))
                o.sf = sf  # restore for next round
        except Exception:
            pass
    return ch

def work(cname):
    import logging
    from vstat.index import get_repo
    from vstat.rules.spec import specs, spec_includes
    from vstat.ispecmodel import cpu_table
    repo = get_repo(); decls, _ = specs(repo); cpus = cpu_table(repo); ext = spec_includes(repo)
    try:
        cpu = importlib.import_module(cname)
    except Exception as e:
        return cname, {}
    from amoco.cas.mapper import mapper
    logging.disable(logging.CRITICAL)
    envs = [sys.modules[m] for m in list(sys.modules) if m.startswith("amoco.arch.") and m.rpartition(".")[2].startswith("env")]
    mods = set()
    for sm in cpus[cname]["specmods"]:
        if sm: mods.add(sm); mods |= ext.get(sm, set())
    rnd = random.Random(2); found = {}
    for s in decls:
        if s.func.mod.name not in mods or s.model is None: continue
        fx, mk = s.model.fix_mask(); nb = s.model.size // 8
        for t in range(6):
            v = (rnd.getrandbits(nb * 8) & ~mk) | fx
            w0 = v.to_bytes(nb, "little"); tail = bytes(rnd.getrandbits(8) for _ in range(16))
            for w in (w0 + tail, w0[::-1] + tail):
                sn = snap_regs(envs)
                try:
                    i = cpu.disassemble(w)
                except Exception:
                    try: cpu.disassemble._disassembler__i = None
                    except Exception: pass
                    i = None
                ch = diff(sn)
                if ch:
                    found.setdefault("decode:" + s.func.name, {"bytes": w.hex(), "changes": ch[:3]})
                if i is None: continue
                ops = [(o, getattr(o, "sf", None), getattr(o, "size", None)) for o in i.operands if hasattr(o, "sf")]
                sn = snap_regs(envs)
                try:
                    i(mapper())
                except Exception:
                    pass
                ch = diff(sn)
                for k, (o, sf, sz) in enumerate(ops):
                    if o.sf != sf or o.size != sz:
                        ch.append("operand[%d] %s sf %s->%s size %s->%s" % (k, o, sf, o.sf, sz, o.size))
                if ch:
                    found.setdefault("exec:i_%s" % i.mnemonic, {"bytes": w.hex(), "changes": ch[:3]})
    return cname, found

if __name__ == "__main__":
    from vstat.index import get_repo
    from vstat.ispecmodel import cpu_table
    cpus = sorted(cpu_table(get_repo()))
    with Pool(16) as p:
        res = dict(p.map(work, cpus))
    json.dump(res, open(sys.argv[1], "w"), indent=1)
    for c, f in res.items(): print(c, len(f))
