"""Triage helper (NOT a registered check): for each R-SIG report build a word from the
spec's fixed bits and feed it to the real ispec.decode of that very spec."""
import importlib, sys, json, codecs
sys.path.insert(0, "/verif")
from vstat.index import get_repo
from vstat.rules.spec import specs, r_sig
repo = get_repo()
out = r_sig(repo, "quick")
decls, _ = specs(repo)
for rep in out.reports:
    s = [d for d in decls if d.func.file == rep.file and d.line == rep.line][0]
    fx, mk = s.model.fix_mask()
    nb = s.model.size // 8
    word = fx.to_bytes(nb, "little")
    m = importlib.import_module(s.func.mod.name)
    sp = [x for x in m.ISPECS if x.format == s.format and x.hook.__name__ == s.func.name][0]
    try:
        i = sp.decode(word + b"\0" * 8, 1)
        r = "decoded:%s" % i.mnemonic
    except Exception as ex:
        r = "%s: %s" % (type(ex).__name__, ex)
    print("known: property=C03 rule=R-SIG key=%s | witness=%s.ISPECS spec %r .decode(bytes.fromhex('%s'),1) | %s" % (rep.key, s.func.mod.name, s.format, word.hex(), r))
