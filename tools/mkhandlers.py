"""(re)generate ref/handlers.json: the inventory of try/except handler sets in the files the never-raise / rollback properties
are anchored in.  Run by hand after reviewing a change of handlers; never at check time."""
import ast, json, os, sys
sys.path.insert(0, "/verif")
from vstat.index import get_repo, norm
from vstat.rules.handlers import FILE_PROPS, try_rows

repo = get_repo()
rows = []
for rel, props in sorted(FILE_PROPS.items()):
    m = repo.mod(rel)
    for f in sorted(m.functions.values(), key=lambda f: f.node.lineno):
        for sig, k, names, line in try_rows(f):
            rows.append({"file": rel, "function": f.dqual, "try_calls": sig, "ordinal": k, "catches": names, "properties": props})
json.dump({"comment": "handler inventory (see vstat/rules/handlers.py); `catches` may only grow", "rows": rows}, open("/verif/ref/handlers.json", "w"), indent=1)
print(len(rows), "rows")
