#!/bin/sh
# usage: verify_round2.sh C14 C06 ...   (verifies A and B of each, prints one line each, removes the agent worktree)
RND=${RND:-3}
for p in "$@"; do
  for x in A B; do
    /venv/bin/python /verif/tools/verify_seed.py $p $x $RND 2>&1 | /venv/bin/python -c "
import sys,json
t=sys.stdin.read()
try:
    j=json.loads(t[:t.rindex('}')+1])
    print('$p-r${RND}$x valid',j.get('valid'),'applies',j.get('patch_applies'),'tests',j.get('tests_passed'),'demo',j.get('demo_without_change_rc'),j.get('demo_with_change_rc'),'fired',{k:[r[:150] for r in v['reports'][:1]] for k,v in j.get('checks_firing',{}).items()})
except Exception as e: print('$p-r${RND}$x ERR',e,t[-300:])"
  done
  git -C /repo worktree remove --force /tmp/wt${RND}-$p 2>/dev/null
done
